#!/usr/bin/env python3
"""Regenerate /verif/MANIFEST.json from the table below (single source of truth) and validate it."""
import json, os, subprocess, sys
VERIF = os.path.dirname(os.path.dirname(os.path.abspath(__file__)))

CHECKS = {
    'C20': dict(
        engine='enum_tag + hypothesis/grdrv',
        technique='exhaustive enumeration + property-based testing against a byte-exact reference under ASan',
        text='Exhaustive over all C strings of length 0..2 (all byte values), structured/random beyond, every buffer exact-size under '
             'ASan, compared with a byte-exact reference; padded-tag equivalence explored with generated fonts. Exploration: holds on '
             'everything enumerated/generated, no absence claim beyond the enumerated sub-domain.',
        note='Trusted: ASan red zones, the reference (8 lines of Python/C++ written from the header text).',
        ref='5/C20'),
}

CHECKS['C11'] = dict(
    engine='enum_utf + hypothesis/grdrv',
    technique='exhaustive enumeration + property-based testing (differential across encodings) with a Unicode Table 3-7 reference under ASan',
    text='gr_count_unicode_characters: exhaustive over all byte strings of length <= 3 (bounded and NUL-terminated modes), all single UTF-16 units, '
         'all UTF-32 values, structured longer strings, each ending at the end of a heap block, judged by an independent classifier. Encoding '
         'equivalence and non-derailing explored with generated texts over shipped fonts. Exploration level.',
    note='Trusted: ASan, the reference classifier (harness/utfref.h, utfjudge.h). Surrogate code points in UTF-8/UTF-32 are treated as unspecified.',
    ref='5/C11')
CHECKS['C12'] = dict(
    engine='hypothesis/grdrv',
    technique='property-based testing: NUL-terminated exact-size buffers under ASan, metamorphic relation to the exact-count call',
    text='Generated NUL-terminated strings in three encodings with nChars >= true length, buffer ending at the terminator: ASan silent, '
         'n_cinfo equals the true length, segment identical to the exact-count segment. Exploration level.',
    note='Trusted: ASan red zones; my UTF encoder.',
    ref='5/C12')

SHAPE_NOTE = 'Trusted: sanitizers; seginv.h predicates (public API only); hook H1/H3 counters; fontsynth compiler. Fuzzed fonts: only what the property quantifies over (fonts the library accepted).'
CHECKS['C01'] = dict(engine='enum_face sweep + fz_face (libFuzzer)', level='fault_enumeration',
    technique='fault enumeration (single-site boundary corruption sweep) + coverage-guided fuzzing with a table-aware mutator, sanitizer and borrow-ledger oracles',
    text='Every byte/word of every table the engine reads in ~12 seed fonts is set to boundary values (exhaustive over that single-site space), the 722 historical '
         'crashers are replayed, and fz_face explores multi-site corruptions; all face queries exercised on accepted faces under ASan/UBSan/LSan with a hang watchdog.',
    note='Trusted: sanitizers, hook H2 for stage histograms. Multi-megabyte inputs and deep coordinated corruptions beyond what the fuzzer reaches are not explored.', ref='5/C01')
CHECKS['C02'] = dict(engine='fz_shape (libFuzzer) + hypothesis/grdrv + enum_face sweep+shape', technique='coverage-guided fuzzing + property-based testing of generated rule programs + deterministic single-site / coordinated-pair corruption sweep whose accepted fonts are shaped; sanitizers + H1 loop-bound counter + query-completeness oracle',
    text='Accepted-but-odd fonts (fuzzed, and every boundary corruption of the synthesised seed fonts that the loader accepts) and wild generated rule programs are shaped with generated texts in all encodings/directions, with NULL, unhinted and hinted fonts; memory safety by sanitizers, '
         'bounded work by the H1 iteration counter against the documented bound, growth cap, all queries complete. Exploration level.', note=SHAPE_NOTE, ref='5/C02')
CHECKS['C03'] = dict(engine='fz_shape (libFuzzer) + hypothesis/grdrv + enum_face sweep+shape', technique='coverage-guided fuzzing + property-based testing; structural invariant oracle over the public slot API',
    text='Glyph-stream well-formedness predicates evaluated on every segment produced by fuzzed fonts, wild programs and shipped fonts. Exploration level.', note=SHAPE_NOTE, ref='5/C03-C05')
CHECKS['C04'] = dict(engine='fz_shape (libFuzzer) + hypothesis/grdrv + enum_face sweep+shape', technique='coverage-guided fuzzing + property-based testing; attachment-forest invariant oracle',
    text='Forest / child-chain / base-chain predicates evaluated on every segment produced by fuzzed fonts, wild programs (attach chains, re-attachment, self/forward '
         'attachment) and shipped fonts. Exploration level.', note=SHAPE_NOTE, ref='5/C03-C05')
CHECKS['C05'] = dict(engine='fz_shape (libFuzzer) + hypothesis/grdrv + enum_face sweep+shape', technique='coverage-guided fuzzing + property-based testing; association invariants + independent UTF reference decoder',
    text='Character/slot association predicates and an independent UTF decoder evaluated on every segment; known finding KF1 recognised by hook H3 and excluded. Exploration level.',
    note=SHAPE_NOTE, ref='5/C03-C05')
CHECKS['C06'] = dict(engine='hypothesis/grdrv + gdlmodel', technique='model-based / differential property-based testing: generated GDL-lite programs compiled to fonts vs a reference interpreter',
    text='Generated rule programs (matching, precedence, constraints, substitutions, insertions, deletions, associations, attributes, attachments, both directions) are '
         'compiled to real font tables and the engine output is compared exactly with an independent reference interpreter. Exploration level inside the stated regime.',
    note='Trusted: py/gdlmodel.py (reference) and py/fontsynth.py (compiler) -- separate code paths from the same rule value; regime restrictions listed in DESIGN 5/C06.', ref='5/C06')

CHECKS['C13'] = dict(engine='enum_cmap + hypothesis/grdrv', technique='exhaustive per-font enumeration of all code points, differential (direct vs cached) and against an independent OpenType reference; fonts generated by property-based testing',
    text='For every shipped font and ~2400 generated well-formed cmaps per quick run, all 0x110000 code points are looked up through both engine paths and a 40-line reference; '
         'exhaustive per font (two fonts with ~1900 format-12 groups are strided above the BMP in the quick tier), exploration over fonts.',
    note='Trusted: the reference cmap lookup and the independent parser of the Silf pseudo-glyph map (harness/cmap_sweep.h; neither calls the library). Generated subtables are well-formed (incl. UCS-4-only cmaps and pseudo maps of 1-11 entries); malformed cmaps are C01 territory.', ref='5/C13')

CHECKS['C14'] = dict(engine='hypothesis/grdrv + fz_lz4 (libFuzzer)', technique='round-trip property-based testing with a generator of valid LZ4 encoders, differential testing against a reference decoder, coverage-guided fuzzing, compressed-vs-plain font differential',
    text='Random valid encodings (overlapping matches, length-extension boundaries, end-of-block rules) of real tables must decode exactly; arbitrary and mutated blocks must be '
         'rejected or agree with a permissive reference decoder within the announced size (ASan on exact-size blocks); fonts with compressed Silf/Glat must load and shape exactly as '
         'their plain twins, and bad compression headers must be rejected without leaks. Exploration level.',
    note='Trusted: py/lz4ref.py and harness/lz4ref.h (reference, from the LZ4 block format description).', ref='5/C14')

CHECKS['C07'] = dict(engine='hypothesis/grdrv x2 builds', technique='model-based property-based testing (generated straight-line programs vs a 32-bit reference evaluator) + differential testing of the two interpreter builds',
    text='Programs generated with stack-depth tracking are loaded by the real bytecode loader (as constraint and as action code) and run by both the direct-threaded and the '
         'call-threaded interpreter; results and machine status are compared with an evaluator written from doc/OpCodes.adoc; whole fonts are shaped by both builds and dumps compared. Exploration level.',
    note='Trusted: the reference evaluator in py/props/c07.py. Slot-touching opcodes are compared between builds only.', ref='5/C07')
CHECKS['C18'] = dict(engine='hypothesis/grdrv (history command)', technique='model-based stateful property-based testing: generated Feat/Sill/name tables and set/get/clone/for_lang/label histories against a dictionary model',
    text='Generated feature tables (bit widths straddling word boundaries, hidden features, v1/v2), language overrides and name tables; operation histories over several live '
         'feature-value objects judged by a dictionary model; labels compared with the name-table strings across encodings. Exploration level.',
    note='Trusted: the model in py/props/c18.py; fontsynth table writers. Feature-value objects come from for_lang (fixed tags and the font own languages, zero/space padded), clone and gr_featureval_clone(NULL). Feature id 1 and > 256 features are outside the generator.', ref='5/C18')

CHECKS['C08'] = dict(engine='hypothesis/grdrv (history command)', technique='stateful property-based testing: generated API call histories on one face, differential against a cold face',
    text='Histories of segment creations/destructions, fonts, feature-value objects, label and support queries, justifications and reports on one face (lazy and preloaded); every '
         'probe segment must equal the segment a cold face produces and the face report must never change. Exploration level.',
    note='Trusted: segment dump (public API, exact floats). Probes use default feature values; fonts are shipped, C06-regime and wild synthesised; gr_font objects are unhinted and hinted (pure fractional advance callback); 1 synthesised font in 4 carries 1-3 corrupted bytes inside Silf (accepted fonts whose programs fail at run time); a candidate that passes in a fresh process is replayed after the recorded request prelude of its process (process-history dependence).', ref='5/C08')
CHECKS['C10'] = dict(engine='hypothesis/grdrv', technique='differential property-based testing across all 16 (options x table source) configurations plus the deprecated seg-cache constructors',
    text='Each generated (font, text, direction, encoding, features) case is shaped under all 8 option values x {callbacks, file}; dumps and face reports must equal the reference configuration exactly. Exploration level.',
    note='Trusted: dump/report comparison. Fonts are well-formed (shipped, fontsynth GDL-lite, or fontsynth with a generated format 4 + format 12 cmap and boundary-code-point texts).', ref='5/C10')
CHECKS['C15'] = dict(engine='hypothesis/grdrv', technique='metamorphic property-based testing: font = P ppm vs font = NULL scaled by P/upem, stated single-precision tolerance',
    text='Generated cases x ppm in (0,4096]: glyphs/attachments/associations identical to the NULL-font segment; origins and advances within 1e-5 x extent x scale of the linear scaling. Exploration level.',
    note='Trusted: tolerance bound (DESIGN 5/C15: 1e-5 x largest compared magnitude x scale); unhinted fonts only; second generator compares a justified second line (gr_slot_linebreak_before + gr_seg_justify) with font NULL and font P.', ref='5/C15')
CHECKS['C19'] = dict(engine='hypothesis/grdrv (history command)', technique='property-based testing of generated linebreak/justify call sequences with a chain-integrity oracle and a confirmed watchdog',
    text='Segments are cut into lines at generated cluster boundaries (2 cases in 3) or at any interior slots (1 in 3) and justified with generated widths/flags/sub-ranges; after every call all line chains must hold the same '
         'slots in the same order with prev the inverse, values finite, glyphs unchanged without a justification pass, sanitizers silent. Known finding KF2 excluded by construction. Exploration level.',
    note='Trusted: line-state observation in harness/drv_scenarios.h; watchdog confirmation (3x60 s).', ref='5/C19')

CHECKS['C16'] = dict(engine='enum_face sweep + fz_face/fz_shape (libFuzzer) + hypothesis/grdrv (history command)', technique='instrumented table provider (borrow ledger, free-on-release) as oracle under fault enumeration, coverage-guided fuzzing and stateful property-based testing; LeakSanitizer at quiescence',
    text='Every table handed to the library is an exact-size heap copy tracked in a ledger: exactly-once release, nothing outstanding after destroy or failed load, no get_table after '
         'preloadAll construction, freed-on-release buffers (use after release = ASan report), LSan at quiescence; driven by the corruption sweep, two fuzz campaigns and generated call histories. Exploration level.',
    note='Trusted: harness/memface.h ledger; LeakSanitizer.', ref='5/C16')
CHECKS['C17'] = dict(engine='pbt_zones + pbt_coll (in-process property-based tests on the real classes)', technique='model-based property-based testing of the interval set (operation sequences vs interval model, shrinking by operation removal) and of the colliders (generated arrangements vs independent separating-axis octabox test)',
    text='Zones invariants and the no-excluded-offer rule over ~25 M generated operations per quick run; ShiftCollider/KernCollider on ~250 k generated arrangements over two Awami fonts judged by a limit clamp '
         'and an independent octabox overlap test; known finding KF3 (LTR with accumulated x offset) recognised as its own generator class. Exploration level.',
    note='Trusted: oracle geometry in harness/pbt_coll.cpp (reach rule = documented short-circuit). Pass-level policy is outside (property is per fixing step).', ref='5/C17')

CHECKS['C09'] = dict(engine='mt_shape (ThreadSanitizer build)', technique='schedule-perturbed concurrent property-based testing under ThreadSanitizer with a sequential differential oracle and a table-callback counter',
    text='Generated multi-threaded workloads (2..8 threads, shared cold preloadAll face and shared font, barrier start, seeded yield/spin perturbation) run under ThreadSanitizer; any race report, any '
         'table callback after construction, or any difference from the single-threaded segment is a violation. Exploration of schedules (sampled, not enumerated).',
    note='Trusted: ThreadSanitizer happens-before detection over instrumented library + harness code; races inside uninstrumented libc calls would be missed. A race report is confirmed by one reproduction in up to 8 fresh runs of the same workload (schedules differ between runs).', ref='5/C09')

NOT_YET = {'C09': 'check not built yet in this session (TSan harness planned, DESIGN 5/C09); the technique applies at exploration level'}

def main():
    props = [json.loads(l) for l in open(os.path.join(VERIF, 'properties.jsonl'))]
    checks = []
    na = []
    for p in props:
        pid = p['id']
        c = CHECKS.get(pid)
        if not c:
            na.append(dict(property_id=pid, reason=NOT_YET.get(pid, 'check not built yet in this session (planned, see DESIGN.md section 5); the technique applies')))
            continue
        checks.append(dict(
            property_id=pid,
            quick_cmd='./check %s --tier quick' % pid,
            thorough_cmd='./check %s --tier thorough' % pid,
            evidence_file='/verif/evidence/%s.json' % pid,
            replay_cmd_template='./check %s --replay {path}' % pid,
            engine=c['engine'],
            level_claimed=dict(category=c.get('level', 'exploration'), text=c['text'], design_ref='DESIGN.md section ' + c['ref']),
            level_note=c['note'],
            technique=c['technique']))
    hooks_commits = subprocess.run(['git', '-C', '/repo', 'log', '--format=%H %s', '--grep=verif hook'], stdout=subprocess.PIPE, text=True).stdout.strip().splitlines()
    man = dict(
        version=1,
        setup_cmd='python3 build.py --all && python3-vt py/setup_corpus.py',
        hooks=dict(guard='GRAPHITE2_VERIF',
                   enable='build.py compiles /repo/src/*.cpp with -DGRAPHITE2_VERIF into /verif/build/<variant>/ (no change to the repository build system)',
                   baseline_off_cmd='cmake -G Ninja -B /repo/_build -S /repo >/dev/null && cmake --build /repo/_build -j16 >/dev/null && ctest --test-dir /repo/_build -j8 --timeout 900',
                   source_commits=[l.split()[0] for l in hooks_commits],
                   add_only=True),
        engines=[
            dict(name='grdrv', path='harness/grdrv.cpp', serves_properties=[c['property_id'] for c in checks], kind_free_text='persistent C++ command driver fed by Hypothesis (python3-vt), ASan+UBSan build of /repo/src'),
            dict(name='enumerators', path='harness/enum_*.cpp', serves_properties=['C11', 'C13', 'C20'], kind_free_text='exhaustive enumeration of finite sub-domains under ASan'),
            dict(name='libFuzzer targets', path='harness/fz_*.cpp', serves_properties=['C01', 'C02', 'C03', 'C04', 'C05', 'C14', 'C16'], kind_free_text='coverage-guided fuzzing with table-aware mutators and in-target semantic oracles'),
        ],
        checks=checks,
        notes='All checks are property-based tests / fuzzers / exhaustive enumerators with explicit oracles; see DESIGN.md. Known findings: known_findings.json.',
        not_applicable=na)
    path = os.path.join(VERIF, 'MANIFEST.json')
    json.dump(man, open(path, 'w'), indent=1)
    try:
        import jsonschema
        jsonschema.validate(man, json.load(open(os.path.join(VERIF, 'schemas', 'MANIFEST.schema.json'))))
        print('MANIFEST.json valid:', len(checks), 'checks,', len(na), 'not_applicable')
    except ImportError:
        print('jsonschema missing; not validated')

if __name__ == '__main__':
    main()
