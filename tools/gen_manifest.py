#!/usr/bin/env python3
"""Regenerate /verif/MANIFEST.json from the table below (single source of truth) and validate it."""
import json, os, subprocess, sys
VERIF = os.path.dirname(os.path.dirname(os.path.abspath(__file__)))

CHECKS = {
    'C20': dict(
        engine='enum_tag + hypothesis/grdrv',
        technique='exhaustive enumeration + property-based testing against a byte-exact reference under ASan',
        text='Exhaustive over all C strings of length 0..2 (all byte values), structured/random beyond, every buffer exact-size under '
             'ASan, compared with a byte-exact reference; padded-tag equivalence explored with generated fonts. Exploration: holds on '
             'everything enumerated/generated, no absence claim beyond the enumerated sub-domain.',
        note='Trusted: ASan red zones, the reference (8 lines of Python/C++ written from the header text).',
        ref='5/C20'),
}

CHECKS['C11'] = dict(
    engine='enum_utf + hypothesis/grdrv',
    technique='exhaustive enumeration + property-based testing (differential across encodings) with a Unicode Table 3-7 reference under ASan',
    text='gr_count_unicode_characters: exhaustive over all byte strings of length <= 3 (bounded and NUL-terminated modes), all single UTF-16 units, '
         'all UTF-32 values, structured longer strings, each ending at the end of a heap block, judged by an independent classifier. Encoding '
         'equivalence and non-derailing explored with generated texts over shipped fonts. Exploration level.',
    note='Trusted: ASan, the reference classifier (harness/utfref.h, utfjudge.h). Surrogate code points in UTF-8/UTF-32 are treated as unspecified.',
    ref='5/C11')
CHECKS['C12'] = dict(
    engine='hypothesis/grdrv',
    technique='property-based testing: NUL-terminated exact-size buffers under ASan, metamorphic relation to the exact-count call',
    text='Generated NUL-terminated strings in three encodings with nChars >= true length, buffer ending at the terminator: ASan silent, '
         'n_cinfo equals the true length, segment identical to the exact-count segment. Exploration level.',
    note='Trusted: ASan red zones; my UTF encoder.',
    ref='5/C12')

NOT_YET = {}

def main():
    props = [json.loads(l) for l in open(os.path.join(VERIF, 'properties.jsonl'))]
    checks = []
    na = []
    for p in props:
        pid = p['id']
        c = CHECKS.get(pid)
        if not c:
            na.append(dict(property_id=pid, reason=NOT_YET.get(pid, 'check not built yet in this session (planned, see DESIGN.md section 5); the technique applies')))
            continue
        checks.append(dict(
            property_id=pid,
            quick_cmd='./check %s --tier quick' % pid,
            thorough_cmd='./check %s --tier thorough' % pid,
            evidence_file='/verif/evidence/%s.json' % pid,
            replay_cmd_template='./check %s --replay {path}' % pid,
            engine=c['engine'],
            level_claimed=dict(category=c.get('level', 'exploration'), text=c['text'], design_ref='DESIGN.md section ' + c['ref']),
            level_note=c['note'],
            technique=c['technique']))
    hooks_commits = subprocess.run(['git', '-C', '/repo', 'log', '--format=%H %s', '--grep=verif hook'], stdout=subprocess.PIPE, text=True).stdout.strip().splitlines()
    man = dict(
        version=1,
        setup_cmd='python3 build.py --all && python3-vt py/setup_corpus.py',
        hooks=dict(guard='GRAPHITE2_VERIF',
                   enable='build.py compiles /repo/src/*.cpp with -DGRAPHITE2_VERIF into /verif/build/<variant>/ (no change to the repository build system)',
                   baseline_off_cmd='cmake -G Ninja -B /repo/_build -S /repo >/dev/null && cmake --build /repo/_build -j16 >/dev/null && ctest --test-dir /repo/_build -j8 --timeout 900',
                   source_commits=[l.split()[0] for l in hooks_commits],
                   add_only=True),
        engines=[
            dict(name='grdrv', path='harness/grdrv.cpp', serves_properties=[c['property_id'] for c in checks], kind_free_text='persistent C++ command driver fed by Hypothesis (python3-vt), ASan+UBSan build of /repo/src'),
            dict(name='enumerators', path='harness/enum_*.cpp', serves_properties=['C11', 'C13', 'C20'], kind_free_text='exhaustive enumeration of finite sub-domains under ASan'),
            dict(name='libFuzzer targets', path='harness/fz_*.cpp', serves_properties=['C01', 'C02', 'C03', 'C04', 'C05', 'C14', 'C16'], kind_free_text='coverage-guided fuzzing with table-aware mutators and in-target semantic oracles'),
        ],
        checks=checks,
        notes='All checks are property-based tests / fuzzers / exhaustive enumerators with explicit oracles; see DESIGN.md. Known findings: known_findings.json.',
        not_applicable=na)
    path = os.path.join(VERIF, 'MANIFEST.json')
    json.dump(man, open(path, 'w'), indent=1)
    try:
        import jsonschema
        jsonschema.validate(man, json.load(open(os.path.join(VERIF, 'schemas', 'MANIFEST.schema.json'))))
        print('MANIFEST.json valid:', len(checks), 'checks,', len(na), 'not_applicable')
    except ImportError:
        print('jsonschema missing; not validated')

if __name__ == '__main__':
    main()
