#!/usr/bin/env python3
"""Adopt an independently produced seeded change and run the checks against it.
   tools/seed_eval.py <seed id, e.g. S-C03> <worktree with seed_out/> <property> [--tier quick] [--also Cxx ...]
Copies patch / demo / notes to /verif/seeded/<id>/, runs `./check <prop>` against a scratch worktree with the patch applied
(tools/mut.py), and writes meta.json (which property it breaks, what it needs to manifest, what was run, the outcome)."""
import os, sys, json, shutil, subprocess, time, re

VERIF = os.path.dirname(os.path.dirname(os.path.abspath(__file__)))


def main():
    a = sys.argv[1:]
    sid, wt, prop = a[0], a[1], a[2]
    tier = 'quick'
    also = []
    i = 3
    while i < len(a):
        if a[i] == '--tier': tier = a[i + 1]; i += 2
        elif a[i] == '--also': also.append(a[i + 1]); i += 2
        else: i += 1
    dst = os.path.join(VERIF, 'seeded', sid)
    os.makedirs(dst, exist_ok=True)
    so = os.path.join(wt, 'seed_out')
    for f in (os.listdir(so) if os.path.isdir(so) else []):
        p = os.path.join(so, f)
        if os.path.isfile(p) and os.path.getsize(p) < 400000 and not f.startswith('demo_') and f not in ('demo', 'demo_san', 'demo_so'):
            shutil.copy(p, os.path.join(dst, f))
    vf = '/root/scratch/sv_%s.out' % sid if os.path.exists('/root/scratch/sv_%s.out' % sid) else '/root/scratch/sv_%s.out' % prop
    verify = open(vf).read() if os.path.exists(vf) else ''
    notes = open(os.path.join(dst, 'NOTES.md')).read() if os.path.exists(os.path.join(dst, 'NOTES.md')) else ''
    runs = []
    for p in [prop] + also:
        t0 = time.time()
        r = subprocess.run([os.path.join(VERIF, 'tools', 'mut.py'), '--patch', os.path.join(dst, 'patch.diff'), '--', './check', p, '--tier', tier],
                           stdout=subprocess.PIPE, stderr=subprocess.STDOUT, text=True)
        viol = [l for l in r.stdout.splitlines() if l.startswith('VIOLATION')]
        runs.append(dict(cmd='tools/mut.py --patch seeded/%s/patch.diff -- ./check %s --tier %s' % (sid, p, tier), rc=r.returncode, caught=r.returncode == 1 and bool(viol),
                         labels=sorted(set(v.split('label=')[-1] for v in viol))[:5], wall_s=round(time.time() - t0, 1), tail=r.stdout[-400:] if r.returncode not in (0, 1) else ''))
        print(json.dumps(runs[-1]))
    meta = dict(id=sid, breaks_property=prop, produced_by='independent sub-agent given only the property text and a scratch worktree',
                needs_to_manifest=(re.search(r'(?is)(what it (needs|takes)[^\n]*\n.*?)(\n#|\n\*\*[A-Z]|\Z)', notes) or [None, notes[:600]])[1][:900],
                confirmed_in_scratch_worktree=('SEED-CONFIRMED' in verify), confirmation_log=verify[-700:], runs=runs,
                caught_by=[r['cmd'].split('./check ')[1].split()[0] for r in runs if r['caught']])
    old = os.path.join(dst, 'meta.json')
    if os.path.exists(old):
        try:
            h = json.load(open(old)).get('evaluation_history')
            if h: meta['evaluation_history'] = h
        except ValueError:
            pass
    json.dump(meta, open(old, 'w'), indent=1)


if __name__ == '__main__':
    main()
