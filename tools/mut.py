#!/usr/bin/env python3
"""Run a /verif command against a scratch worktree of /repo (a revision and/or a patch applied), with
its own build directory, then remove both.  Used for mutation-sensitivity experiments only.
  tools/mut.py [--rev REV] [--patch FILE]... [--sed 'file::old::new']... [--sub FILE OLD NEW]... [--keep] -- ./check C20 --tier quick
Evidence written by the command goes to a scratch evidence directory, not /verif/evidence."""
import os, sys, subprocess, tempfile, shutil

def main():
    a = sys.argv[1:]
    rev, patches, seds, keep = 'HEAD', [], [], False
    while a and a[0] != '--':
        if a[0] == '--rev': rev = a[1]; a = a[2:]
        elif a[0] == '--patch': patches.append(os.path.abspath(a[1])); a = a[2:]
        elif a[0] == '--sed': seds.append(a[1].split('::')); a = a[2:]
        elif a[0] == '--sub': seds.append(a[1:4]); a = a[4:]      # --sub FILE OLD NEW (texts may contain '::')
        elif a[0] == '--keep': keep = True; a = a[1:]
        else: sys.exit('bad arg ' + a[0])
    cmd = a[1:]
    os.makedirs('/root/scratch', exist_ok=True)
    base = tempfile.mkdtemp(prefix='mut-', dir='/root/scratch')
    wt = os.path.join(base, 'repo')
    subprocess.check_call(['git', '-C', '/repo', 'worktree', 'add', '--detach', '-q', wt, rev])
    rc = 2
    try:
        for p in patches:
            subprocess.check_call(['git', '-C', wt, 'apply', p])
        for s in seds:
            f, old, new = s
            path = os.path.join(wt, f)
            txt = open(path).read()
            if old not in txt:
                sys.exit('sed: pattern not found in %s: %r' % (f, old))
            open(path, 'w').write(txt.replace(old, new, 1))
        env = dict(os.environ, VERIF_REPO=wt, VERIF_BUILD=os.path.join(base, 'build'), VERIF_SCRATCH_OUT=os.path.join(base, 'out'))
        rc = subprocess.call(cmd, env=env, cwd='/verif')
    finally:
        if not keep:
            subprocess.call(['git', '-C', '/repo', 'worktree', 'remove', '--force', wt])
            shutil.rmtree(base, ignore_errors=True)
        else:
            print('kept', base)
    return rc

if __name__ == '__main__':
    sys.exit(main())
