#!/usr/bin/env python3
"""Mutation-sensitivity table: apply each hand-written mutant to a scratch worktree and run the property's
check against it.  Results are appended to tools/mutants.log (one JSON line per run).
   tools/mutants.py C06 [name ...] [--tier quick|thorough]"""
import sys, os, json, subprocess, time

M = {
 'C06': [
  ('sortkey-flip', 'src/inc/Rule.h', 'return lsort > rsort ||', 'return lsort < rsort ||'),
  ('ruleorder-flip', 'src/inc/Rule.h', '(lsort == rsort && rule < r.rule)', '(lsort == rsort && rule > r.rule)'),
  ('constraint-first-slot-only', 'src/Pass.cpp', 'for (int n = r.sort; n && map; --n, ++map)', 'for (int n = 1; n && map; --n, ++map)'),
  ('adjust-off-by-one', 'src/Pass.cpp', 'while (++delta <= 0 && slot_out)', 'while (++delta < 0 && slot_out)'),
  ('putsubs-index-plus-1', 'src/inc/opcodes.h', 'is->setGlyph(&seg, seg.getClassGlyph(output_class, index));\n    }\nENDOP\n\nSTARTOP(put_copy)', 'is->setGlyph(&seg, seg.getClassGlyph(output_class, index + 1));\n    }\nENDOP\n\nSTARTOP(put_copy)'),
  ('no-qsort', 'src/Pass.cpp', 'qsort(begin, end - begin, sizeof(RuleEntry), &cmpRuleEntry);', '(void)cmpRuleEntry;'),
  ('precontext-le', 'src/Pass.cpp', 'if (fsm.slots.context() < m_minPreCtxt)', 'if (fsm.slots.context() <= m_minPreCtxt && m_minPreCtxt)'),
  ('assoc-max-uses-before', 'src/inc/opcodes.h', 'if (ts && ts->after() > max) max = ts->after();', 'if (ts && ts->before() > max) max = ts->before();'),
  ('attach-plus-with', 'src/Slot.cpp', 'm_position += (m_attach - m_with) * scale;', 'm_position += (m_attach + m_with) * scale;'),
  ('rtl-shift-not-negated', 'src/Slot.cpp', 'Position shift(m_shift.x * (rtl * -2 + 1) + m_just, m_shift.y);', 'Position shift(m_shift.x + m_just, m_shift.y);'),
  ('delete-keeps-highwater', 'src/inc/opcodes.h', 'if (is->prev())\n        is = is->prev();\n    seg.extendLength(-1);', 'seg.extendLength(-1);'),
 ],
}

M.update({
 'C01': [
  ('subtable-offset-check-dropped', 'src/Face.cpp', 'if (e.test(next > silf.size() || offset >= next, E_BADSIZE))', 'if (e.test(offset >= next, E_BADSIZE))'),
  ('ranges-length-off-by-one', 'src/Pass.cpp', 'if (e.test(p + numRanges * 6 - 2 > pass_end, E_BADPASSLENGTH))', 'if (e.test(p + numRanges * 6 - 4 > pass_end + 8, E_BADPASSLENGTH))'),
  ('glat-bound-dropped', 'src/GlyphCache.cpp', 'if (glocs >= m_pGlat.size() - 1 || gloce > m_pGlat.size())', 'if (glocs >= m_pGlat.size() - 1)'),
  ('class-lookup-check-dropped', 'src/Silf.cpp', '|| lookup[0] * 2 + *o + 4 > max_off ', '|| false '),
 ],
 'C02': [
  ('insert-budget-ignored', 'src/inc/opcodes.h', 'if (smap.decMax() <= 0) DIE;', 'smap.decMax();'),
  ('loop-counter-not-reset', 'src/Pass.cpp', "if (s && (s == m.slotMap().highwater() || m.slotMap().highpassed() || --lc == 0)) {", "if (s && (s == m.slotMap().highwater() || m.slotMap().highpassed() || --lc == -1000000)) {"),
  ('attach-chain-limit-removed', 'src/Slot.cpp', 'if (count < 100 && !foundOther && other->child(this))', 'if (!foundOther && other->child(this))'),
  ('maxref-precheck-dropped', 'src/Code.cpp', "        || m.slotMap()[_max_ref + m.slotMap().context()] == 0)", "        || false)"),
 ],
 'C03': [
  ('delete-no-length-update', 'src/inc/opcodes.h', '        is = is->prev();\n    seg.extendLength(-1);', '        is = is->prev();'),
  ('putcopy-index-reverted', 'src/inc/opcodes.h', '            is->index(index);       // the copy keeps its own place in the stream', ''),
  ('insert-prev-link-broken', 'src/inc/opcodes.h', '        iss->prev()->next(newSlot);\n        newSlot->prev(iss->prev());', '        iss->prev()->next(newSlot);'),
 ],
 'C04': [
  ('cycle-check-removed', 'src/Slot.cpp', 'if (count < 100 && !foundOther && other->child(this))', 'if (count < 100 && other->child(this))'),
  ('putcopy-overwrites-attached', 'src/inc/opcodes.h', 'if (is->attachedTo() || is->firstChild()) DIE', ''),
  ('freeslot-keeps-children', 'src/Segment.cpp', '            aSlot->firstChild()->attachTo(nullptr);\n            aSlot->removeChild(aSlot->firstChild());', '            aSlot->removeChild(aSlot->firstChild());'),
  ('delete-detach-reverted', 'src/inc/opcodes.h', '        if (child->attachedTo() == is)\n        {\n            child->attachTo(NULL);', '        if (child->attachedTo() == is)\n        {'),
 ],
 'C05': [
  ('assoc-before-uses-max', 'src/inc/opcodes.h', 'if (ts && (min == -1 || ts->before() < min)) min = ts->before();', 'if (ts && (min == -1 || ts->before() > min)) min = ts->before();'),
  ('associate-edge-fix-reverted', 'src/Segment.cpp', '        if (c->after() < 0)         c->after(c->before());', '        if (false)         c->after(c->before());'),
  ('associate-extension-off-by-one', 'src/Segment.cpp', '        --a;\n        s->after(a);', '        s->after(a);'),
 ],
 'C07': [
  ('less-unsigned', 'src/inc/opcodes.h', 'STARTOP(less)\n    sbinop(<);', 'STARTOP(less)\n    binop(<);'),
  ('cond-pop-order', 'src/inc/opcodes.h', 'const uint32 f = pop(), t = pop(), c = pop();', 'const uint32 t = pop(), f = pop(), c = pop();'),
  ('trunc16-as-8', 'src/inc/opcodes.h', '    *sp = uint16(*sp);', '    *sp = uint8(*sp);'),
  ('band-bor-swapped', 'src/inc/opcodes.h', 'STARTOP(band)\n    binop(&);', 'STARTOP(band)\n    binop(|);'),
  ('call-machine-only-min', 'src/call_machine.cpp', '#include "inc/opcodes.h"', '#include "inc/opcodes.h"\n'),
 ],
 'C11': [
  ('overlong-2byte-accepted', 'src/inc/UtfCodec.h', 'toolong |= (u < 0x80); GR_FALLTHROUGH;', 'toolong |= (u < 0x40); GR_FALLTHROUGH;'),
  ('utf16-low-surrogate-boundary', 'src/inc/UtfCodec.h', 'if (uh > 0xDBFF) { l = -1; return 0xFFFD; }', 'if (uh > 0xDC00) { l = -1; return 0xFFFD; }'),
  ('count-ignores-nul', 'src/gr_segment.cpp', 'if ((usv = *first) == 0 || first.error()) break;', 'if ((usv = *first) == 0xFFFFFFFF || first.error()) break;'),
 ],
 'C14': [
  ('minmatch-3', 'src/inc/Compression.h', 'MINMATCH = 4,', 'MINMATCH = 3,'),
  ('overrun-copy-unchecked', 'src/Decompressor.cpp', '            && align(match_len) <= out_size)', '            )'),
  ('size-mask-28-bits', 'src/Face.cpp', 'uncompressed_size  = hdr & 0x07ffffff;', 'uncompressed_size  = hdr & 0x0fffffff;'),
  ('version-check-skipped', 'src/Face.cpp', 'e.test(be::peek<uint32>(uncompressed_table) != version, E_SHRINKERFAILED);', '(void)version;'),
 ],
 'C15': [
  ('attach-offset-unscaled', 'src/Slot.cpp', 'm_position += (m_attach - m_with) * scale;', 'm_position += (m_attach - m_with);'),
  ('advance-y-unscaled', 'src/gr_slot.cpp', '        return res * font->scale();', '        return res;'),
 ],
 'C18': [
  ('range-check-ge', 'src/FeatureMap.cpp', 'if (val>maxVal() || !m_face)', 'if (val>=maxVal() || !m_face)'),
  ('mask-not-cleared', 'src/FeatureMap.cpp', '    pDest[m_index] &= ~m_mask;', ''),
  ('zeropad-2char-dropped', 'src/gr_face.cpp', '        if ((x & 0x0000FFFF) == 0x00002020)     return x & 0xFFFF0000;', ''),
 ],
 'C19': [
  ('justify-dir-fix-reverted', 'src/Justifier.cpp', 'res = positionSlots(font, pSlot, pLast, m_silf->dir());', 'res = positionSlots(font, pSlot, pLast, m_dir);'),
  ('no-final-reverse', 'src/Justifier.cpp', "    m_first = oldFirst;\n    m_last = oldLast;\n\n    if ((m_dir & 1) != m_silf->dir() && m_silf->bidiPass() != m_silf->numPasses())\n        reverseSlots();", "    m_first = oldFirst;\n    m_last = oldLast;"),
  ('restore-first-only', 'src/Justifier.cpp', '    m_first = oldFirst;\n    m_last = oldLast;', '    m_first = oldFirst;'),
 ],
 'C17': [
  ('zones-single-point-fix-reverted', 'src/Intervals.cpp', 'if (_pos == _posm && x < _pos && _pos < xm)', 'if (false && _pos == _posm && x < _pos && _pos < xm)'),
  ('remove-case2-no-trim', 'src/Intervals.cpp', '            i->xm = x;\n            if (separated(i->x, i->xm)) break;', '            if (separated(i->x, i->xm)) break;'),
  ('vmax-uses-xa', 'src/Collider.cpp', 'vmax = min(min(bb.xa - tbb.xi + sx, sb.da - tsb.di + ty + sd), sb.sa - tsb.si - ty + ss);', 'vmax = min(min(bb.xa - tbb.xa + sx, sb.da - tsb.di + ty + sd), sb.sa - tsb.si - ty + ss);'),
  ('kern-clamp-sign', 'src/Collider.cpp', 'float result = min(_limit.tr.x - _offsetPrev.x, max(resultNeeded, _limit.bl.x - _offsetPrev.x));', 'float result = min(_limit.tr.x + _offsetPrev.x, max(resultNeeded, _limit.bl.x - _offsetPrev.x));'),
 ],
 'C16': [
  ('no-release-on-failed-check', 'src/Face.cpp', '        release();     // Make sure we release the table buffer even if the table failed its checks\n        return;', '        return;'),
  ('nametable-retry-reverted', 'src/Face.cpp', 'if (m_pNames || m_namesTried) return m_pNames;', 'if (m_pNames) return m_pNames;'),
 ],
 'C10': [
  ('cached-cmap-limit-fffe', 'src/CmapCache.cpp', 'bmp_cmap, 0, 0xFFFF))', 'bmp_cmap, 0, 0x2FFF))'),
  ('preload-skips-last-glyph-attrs', 'src/GlyphCache.cpp', 'for (uint16 gid = 1; loaded && gid != _num_glyphs; ++gid)', 'for (uint16 gid = 1; loaded && gid != _num_glyphs; ++gid) if (gid % 97 == 96) { _glyphs[gid] = _glyphs[0]; } else'),
 ],
 'C08': [
  ('advance-depends-on-call-count', 'src/Slot.cpp', '    m_advance = Position(aGlyph->theAdvance().x, 0.);', '    { static unsigned calls; m_advance = Position(aGlyph->theAdvance().x + float((++calls >> 9) & 1), 0.); }'),
 ],
 'C12': [('nul-stop-reverted', 'src/Segment.cpp', "if (usv == 0)   break;      // the string ends at the first NUL, whatever n_chars says", "")],
 'C13': [('fmt4-lookup-end-exclusive', 'src/TtfUtil.cpp', 'if (chEnd >= nUnicodeId && nUnicodeId >= chStart)', 'if (chEnd > nUnicodeId && nUnicodeId >= chStart)'),
         ('cache-walk-from-1', 'src/CmapCache.cpp', 'bmp_cmap, 0, 0xFFFF))', 'bmp_cmap, 1, 0xFFFF))')],
 'C20': [('str-to-tag-max', 'src/gr_face.cpp', 'switch(min(strlen(str),size_t(4)))', 'switch(max(strlen(str),size_t(4)))'),
         ('tag-to-str-nul', 'src/gr_face.cpp', '    *str   = char(tag);', '    *str++ = char(tag); *str = 0;')],
})

def main():
    a = sys.argv[1:]
    tier = 'quick'
    if '--tier' in a:
        i = a.index('--tier'); tier = a[i + 1]; del a[i:i + 2]
    chk = None
    if '--check' in a:
        i = a.index('--check'); chk = a[i + 1]; del a[i:i + 2]
    prop = a[0]
    names = a[1:]
    log = os.path.join(os.path.dirname(os.path.abspath(__file__)), 'mutants.log')
    for name, f, old, new in M[prop]:
        if names and name not in names:
            continue
        t0 = time.time()
        r = subprocess.run([os.path.join(os.path.dirname(os.path.abspath(__file__)), 'mut.py'), '--sub', f, old, new, '--',
                            './check', chk or prop, '--tier', tier], stdout=subprocess.PIPE, stderr=subprocess.STDOUT, text=True)
        viol = [l for l in r.stdout.splitlines() if l.startswith('VIOLATION')]
        rec = dict(prop=prop, check=chk or prop, mutant=name, tier=tier, rc=r.returncode, caught=r.returncode == 1 and bool(viol), labels=[v.split('label=')[-1] for v in viol][:4], wall=round(time.time() - t0, 1))
        if r.returncode not in (0, 1):
            rec['tail'] = r.stdout[-600:]
        print(json.dumps(rec), flush=True)
        open(log, 'a').write(json.dumps(rec) + '\n')

if __name__ == '__main__':
    main()
