#!/usr/bin/env python3
"""Mutation-sensitivity table: apply each hand-written mutant to a scratch worktree and run the property's
check against it.  Results are appended to tools/mutants.log (one JSON line per run).
   tools/mutants.py C06 [name ...] [--tier quick|thorough]"""
import sys, os, json, subprocess, time

M = {
 'C06': [
  ('sortkey-flip', 'src/inc/Rule.h', 'return lsort > rsort ||', 'return lsort < rsort ||'),
  ('ruleorder-flip', 'src/inc/Rule.h', '(lsort == rsort && rule < r.rule)', '(lsort == rsort && rule > r.rule)'),
  ('constraint-first-slot-only', 'src/Pass.cpp', 'for (int n = r.sort; n && map; --n, ++map)', 'for (int n = 1; n && map; --n, ++map)'),
  ('adjust-off-by-one', 'src/Pass.cpp', 'while (++delta <= 0 && slot_out)', 'while (++delta < 0 && slot_out)'),
  ('putsubs-index-plus-1', 'src/inc/opcodes.h', 'is->setGlyph(&seg, seg.getClassGlyph(output_class, index));\n    }\nENDOP\n\nSTARTOP(put_copy)', 'is->setGlyph(&seg, seg.getClassGlyph(output_class, index + 1));\n    }\nENDOP\n\nSTARTOP(put_copy)'),
  ('no-qsort', 'src/Pass.cpp', 'qsort(begin, end - begin, sizeof(RuleEntry), &cmpRuleEntry);', '(void)cmpRuleEntry;'),
  ('precontext-le', 'src/Pass.cpp', 'if (fsm.slots.context() < m_minPreCtxt)', 'if (fsm.slots.context() <= m_minPreCtxt && m_minPreCtxt)'),
  ('assoc-max-uses-before', 'src/inc/opcodes.h', 'if (ts && ts->after() > max) max = ts->after();', 'if (ts && ts->before() > max) max = ts->before();'),
  ('attach-plus-with', 'src/Slot.cpp', 'm_position += (m_attach - m_with) * scale;', 'm_position += (m_attach + m_with) * scale;'),
  ('rtl-shift-not-negated', 'src/Slot.cpp', 'Position shift(m_shift.x * (rtl * -2 + 1) + m_just, m_shift.y);', 'Position shift(m_shift.x + m_just, m_shift.y);'),
  ('delete-keeps-highwater', 'src/inc/opcodes.h', 'if (is->prev())\n        is = is->prev();\n    seg.extendLength(-1);', 'seg.extendLength(-1);'),
 ],
}

def main():
    a = sys.argv[1:]
    tier = 'quick'
    if '--tier' in a:
        i = a.index('--tier'); tier = a[i + 1]; del a[i:i + 2]
    prop = a[0]
    names = a[1:]
    log = os.path.join(os.path.dirname(os.path.abspath(__file__)), 'mutants.log')
    for name, f, old, new in M[prop]:
        if names and name not in names:
            continue
        t0 = time.time()
        r = subprocess.run([os.path.join(os.path.dirname(os.path.abspath(__file__)), 'mut.py'), '--sed', '%s::%s::%s' % (f, old, new), '--',
                            './check', prop, '--tier', tier], stdout=subprocess.PIPE, stderr=subprocess.STDOUT, text=True)
        viol = [l for l in r.stdout.splitlines() if l.startswith('VIOLATION')]
        rec = dict(prop=prop, mutant=name, tier=tier, rc=r.returncode, caught=r.returncode == 1 and bool(viol), labels=[v.split('label=')[-1] for v in viol][:4], wall=round(time.time() - t0, 1))
        if r.returncode not in (0, 1):
            rec['tail'] = r.stdout[-600:]
        print(json.dumps(rec), flush=True)
        open(log, 'a').write(json.dumps(rec) + '\n')

if __name__ == '__main__':
    main()
