#!/bin/bash
# Confirm a seeded change in its scratch worktree: tests unchanged with the patch, demo fails with it, passes without.
#   seed_verify.sh <worktree> '<demo build command>' '<demo run command>'
set -u
WT=$1; BUILD=$2; RUN=$3
cd "$WT" || exit 2
git checkout -q -- src include
git apply seed_out/patch.diff || { echo "PATCH-DOES-NOT-APPLY"; exit 2; }
( cmake -G Ninja -B _build -S . >/dev/null && cmake --build _build -j8 >/dev/null 2>&1 ) || { echo "PATCHED-TREE-DOES-NOT-BUILD"; git checkout -q -- src include; exit 2; }
T=$(ctest --test-dir _build -j8 --timeout 900 2>&1 | grep -E "tests passed")
echo "patched tests: $T"
FAILED=$(ctest --test-dir _build -j8 --timeout 900 2>&1 | grep -E "^\s+[0-9]+ - " | grep -v -E "cmp1|cmp2" | wc -l)
echo "patched: non-cmp failing tests: $FAILED"
bash -c "$BUILD" >/dev/null 2>&1 || echo "demo build (patched) returned non-zero"
timeout 600 bash -c "$RUN" > seed_out/verify_patched.txt 2>&1; RP=$?
echo "demo with patch: exit=$RP  ($(tail -1 seed_out/verify_patched.txt | cut -c1-120))"
git checkout -q -- src include
bash -c "$BUILD" >/dev/null 2>&1 || echo "demo build (clean) returned non-zero"
timeout 600 bash -c "$RUN" > seed_out/verify_clean.txt 2>&1; RC=$?
echo "demo without patch: exit=$RC  ($(tail -1 seed_out/verify_clean.txt | cut -c1-120))"
if [ "$FAILED" = "0" ] && [ $RP -ne 0 ] && [ $RC -eq 0 ]; then echo "SEED-CONFIRMED"; else echo "SEED-NOT-CONFIRMED"; fi
