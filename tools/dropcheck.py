#!/usr/bin/env python3
"""Sensitivity experiment: drop one loader validity check at a time (`e.test(COND, CODE)` -> `e.test(false && (COND), CODE)`)
in a scratch worktree and run the quick C01 and C02 checks against it.  A dropped check that matters lets a malformed
font through; it shows up either while loading/querying (C01) or while shaping the accepted font (C02).
  tools/dropcheck.py [--every K] [--offset O] [--files Silf.cpp,Pass.cpp,Face.cpp] [--checks C01,C02]
Results are appended to tools/dropcheck.log (one JSON line per site)."""
import os, sys, re, json, subprocess, time

VERIF = os.path.dirname(os.path.dirname(os.path.abspath(__file__)))
REPO = '/repo'


def sites(path):
    """(start, end) offsets of the condition argument of every e.test( ... , CODE) call"""
    txt = open(path).read()
    out = []
    for m in re.finditer(r'\be\.test\(', txt):
        i = m.end()
        depth, j = 0, i
        # the condition ends at the last top-level comma before the closing parenthesis
        last_comma = None
        while j < len(txt):
            c = txt[j]
            if c == '(':
                depth += 1
            elif c == ')':
                if depth == 0:
                    break
                depth -= 1
            elif c == ',' and depth == 0:
                last_comma = j
            j += 1
        if last_comma is not None:
            out.append((i, last_comma))
    return txt, out


def main():
    a = sys.argv[1:]
    every, offset, files, checks = 1, 0, ['Silf.cpp', 'Pass.cpp', 'Face.cpp'], ['C01', 'C02']
    while a:
        if a[0] == '--every': every = int(a[1]); a = a[2:]
        elif a[0] == '--offset': offset = int(a[1]); a = a[2:]
        elif a[0] == '--files': files = a[1].split(','); a = a[2:]
        elif a[0] == '--checks': checks = a[1].split(','); a = a[2:]
        else: sys.exit('bad arg ' + a[0])
    allsites = []
    for f in files:
        txt, ss = sites(os.path.join(REPO, 'src', f))
        for (s, e) in ss:
            allsites.append((f, s, e, txt))
    log = open(os.path.join(VERIF, 'tools', 'dropcheck.log'), 'a')
    for k, (f, s, e, txt) in enumerate(allsites):
        if k % every != offset:
            continue
        cond = txt[s:e]
        line = txt.count('\n', 0, s) + 1
        old = txt[max(0, s - 7):e]                 # 'e.test(' + cond : unique enough together with the preceding text?
        if txt.count(old) != 1:
            # make it unique by extending to the left
            ext = 7
            while txt.count(txt[max(0, s - ext):e]) != 1 and ext < 400:
                ext += 20
            old = txt[max(0, s - ext):e]
        new = old[:len(old) - len(cond)] + 'false && (' + cond + ')'
        rec = dict(file=f, line=line, cond=' '.join(cond.split())[:160], runs=[])
        for p in checks:
            t0 = time.time()
            r = subprocess.run([os.path.join(VERIF, 'tools', 'mut.py'), '--sub', 'src/' + f, old, new, '--', './check', p, '--tier', 'quick'],
                               stdout=subprocess.PIPE, stderr=subprocess.STDOUT, text=True)
            viol = [l for l in r.stdout.splitlines() if l.startswith('VIOLATION')]
            rec['runs'].append(dict(check=p, rc=r.returncode, caught=r.returncode == 1 and bool(viol), labels=sorted(set(v.split('label=')[-1] for v in viol))[:3],
                                    wall=round(time.time() - t0, 1), tail=r.stdout[-300:] if r.returncode not in (0, 1) else ''))
            if rec['runs'][-1]['caught']:
                break
        rec['caught'] = any(x['caught'] for x in rec['runs'])
        log.write(json.dumps(rec) + '\n'); log.flush()
        print(json.dumps(rec)[:400], flush=True)


if __name__ == '__main__':
    main()
