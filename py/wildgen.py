"""The "wild" regime: GDL-lite programs outside what C06 compares -- backward cursor adjustments (loop
limit), insert-heavy rules (growth cap), attach chains / re-attachment / attachment to later or same slots,
put_copy and assoc in positioning passes, division, big literals, arbitrary slot-attribute codes, reversed
passes, pass constraints, bidi-class-16 glyphs, mirroring, pseudo glyphs, justification levels.
Only safety and the structural invariants (C02..C05) are judged on these."""
from hypothesis import strategies as st
import gdlgen
import fontsynth as fs
from gdlgen import A0, cp_of


@st.composite
def wild_spec(draw):
    spec = draw(gdlgen.c06_spec(max_glyphs=8, max_passes=4))
    n = len(spec['glyphs'])
    classes = spec['classes']
    nuser = spec['nuser']
    # glyph attributes that steer engine paths
    for g in spec['glyphs']:
        k = draw(st.integers(0, 9))
        if k == 0:
            g['attrs'][str(fs.A_BIDI)] = 16                   # "NSM": kept after its base by reverseSlots
        elif k == 1:
            g['attrs'][str(fs.A_MIRROR)] = draw(st.integers(1, n - 1))
        elif k == 2:
            g['attrs'][str(fs.A_BREAK)] = draw(st.sampled_from([10, 15, 20, 30, -10, -30, 40]))
        elif k == 3:
            g['attrs'][str(fs.A_PSEUDO)] = draw(st.integers(1, n - 1))
        elif k == 4 and draw(st.integers(0, 2)) == 0:
            # a glyph the lazy loader cannot read (outline box with xMin > xMax): a lazy face answers every lookup of it with
            # glyph 0, again and again; a preloading face refuses the font
            g['bbox'] = [g['bbox'][2] + 10, g['bbox'][1], g['bbox'][0], g['bbox'][3]]
    if draw(st.booleans()):
        spec['pseudos'] = [[draw(st.sampled_from([0x200C, 0x200D, 0x25CC, 0xFFFF, 0x1F600])), draw(st.integers(1, n - 1))]]
    if draw(st.integers(0, 3)) == 0:
        spec['justs'] = [[A0, A0 + 1, A0 + 2, A0] for _ in range(draw(st.integers(1, 3)))]
    for pi, p in enumerate(spec['passes']):
        positioning = pi >= spec['nsubst']
        p['maxloop'] = draw(st.sampled_from([1, 2, 3, 5, 200]))
        p['reverse'] = draw(st.integers(0, 4)) == 0
        if draw(st.integers(0, 5)) == 0:
            p['pconstraint'] = draw(gdlgen.expr([0], len(spec['feats']), nuser, boolean=True))
        pre = p['pre']
        for r in p['rules']:
            blen = len(r['items']) - pre
            k = draw(st.integers(0, 3))
            if k == 0:
                r['adjust'] = draw(st.integers(-(pre + blen) - 1, 3))
            for bi, it in enumerate([a for a in r['actions'] if not a.get('insert')]):
                refs_g = list(range(-(pre + bi), blen - bi))
                w = draw(st.integers(0, 11))
                if w == 0:
                    it['attrs'].append(['attach', draw(st.integers(-pre, blen - 1)), None])
                elif w == 1:
                    it['attrs'].append(['user', draw(st.integers(0, nuser - 1)),
                                        ['bin', 'div', draw(gdlgen.expr(refs_g, len(spec['feats']), nuser)), draw(gdlgen.expr(refs_g, len(spec['feats']), nuser))]])
                elif w == 2:
                    code = draw(st.sampled_from([0, 1, 3, 4, 8, 9, 13, 14, 16, 17, 20, 21, 25, 26, 27, 28, 29, 30, 54, 56, 57, 58, 59, 60, 61, 62, 63, 64, 65]))
                    it['attrs'].append(['slat', code, ['lit', draw(st.sampled_from([0, 1, -1, 100, 255, 256, 32767, -32768, 70000, -70000, 2147483647, -2147483648]))]])
                elif w == 3 and it.get('op') == 'keep':
                    it['op'] = 'copy'; it['ref'] = draw(st.integers(-pre, blen - 1))
                elif w == 4 and it.get('op') != 'delete':
                    it['assoc'] = draw(st.lists(st.integers(-pre, blen - 1), min_size=1, max_size=4))
                elif w == 5:
                    it['attrs'].append(['slat_add', draw(st.sampled_from([0, 20, 21, 3, 4])), ['lit', draw(st.integers(-500, 500))]])
                elif w == 6:
                    it['attrs'].append(['advx', 0, ['lit', draw(st.sampled_from([0, 1, 5000, -300, 32767]))]])
                elif w == 7 and it.get('op') == 'keep' and not positioning:
                    # substitution through arbitrary classes: the slot's glyph need not be a member of the input class
                    it['op'] = 'subs'; it['ref'] = draw(st.integers(-pre, blen - 1))
                    it['in'] = draw(st.integers(0, len(classes) - 1)); it['out'] = draw(st.integers(0, len(classes) - 1))
            if not positioning and draw(st.integers(0, 4)) == 0:
                # insert-heavy: up to 5 inserts at random places
                acts = r['actions']
                for _ in range(draw(st.integers(1, 5))):
                    pos = draw(st.integers(0, len(acts)))
                    acts.insert(pos, dict(op=draw(st.sampled_from(['glyph', 'copy'])), insert=True, cls=draw(st.integers(0, n - 2)), ref=draw(st.integers(-pre, blen - 1)),
                                          assoc=draw(st.lists(st.integers(-pre, blen - 1), min_size=0, max_size=2)) or None, attrs=[]))
    spec['dir'] = draw(st.integers(0, 1))
    if draw(st.integers(0, 3)) == 0:
        # line-end contextuals: gr_seg_justify brackets the line with two marker slots of glyph lbGID (C08 histories, C19)
        spec['silf_flags'] = spec.get('silf_flags', 0) | 1
        spec['lbgid'] = draw(st.integers(0, n - 1))
    return spec


def fix_refs(spec):
    """The loader rejects slot references outside the rule; clamp what the wild edits produced so that most
    programs load (rejected ones are still fine: they count as 'rejected')."""
    for p in spec['passes']:
        pre = p['pre']
        for r in p['rules']:
            blen = len(r['items']) - pre
            inpos = 0
            for it in r['actions']:
                ins = bool(it.get('insert'))
                lo, hi = -pre, blen - 1
                if 'ref' in it:
                    it['ref'] = max(lo, min(hi, it['ref']))
                if it.get('assoc'):
                    it['assoc'] = [max(lo, min(hi, x)) for x in it['assoc']]
                if not ins:
                    inpos += 1
    return spec


@st.composite
def attach_spec(draw):
    """Attachment stress: a tiny alphabet and 2..4 positioning passes whose rules do little else than attach body items to
    other body items -- stars (several children of one parent), chains, re-attachment of a slot that already has a parent
    (first / middle / last child), attachment to an own descendant or to itself (the engine must refuse), and, in a
    substitution pass placed first, deletions and insertions so that later passes meet fresh slots."""
    spec = draw(gdlgen.c06_spec(max_glyphs=4, max_passes=2))
    n = len(spec['glyphs'])
    single = lambda g: g - 1                      # c06_spec: classes[g-1] == [g]
    anycls = len(spec['classes'])
    spec['classes'].append(list(range(1, n)))
    passes = spec['passes'][:spec['nsubst']][:1]
    spec['nsubst'] = len(passes)
    for pi in range(draw(st.integers(2, 4))):
        rules = []
        for _ in range(draw(st.integers(1, 3))):
            shape = draw(st.integers(0, 3))
            blen = draw(st.integers(2, 5))
            if shape == 0:
                # star: x y y y -> every y attached to x (or to the last item)
                x, y = draw(st.integers(1, n - 1)), draw(st.integers(1, n - 1))
                items = [single(x)] + [single(y)] * (blen - 1)
                if draw(st.booleans()):
                    items = items[::-1]; tgt = blen - 1
                else:
                    tgt = 0
                att = {bi: tgt for bi in range(blen) if bi != tgt}
            else:
                items = [draw(st.sampled_from([single(draw(st.integers(1, n - 1))), anycls])) for _ in range(blen)]
                att = {}
                for bi in draw(st.lists(st.integers(0, blen - 1), min_size=1, max_size=3, unique=True)):
                    att[bi] = draw(st.integers(0, blen - 1))            # may be bi itself: refused by the engine
            actions = []
            for bi in range(blen):
                it = dict(op='keep', attrs=[])
                if bi in att:
                    it['attrs'].append(['attach', att[bi], None])
                    if draw(st.booleans()):
                        it['attrs'] += [['attx', 0, ['lit', draw(st.integers(0, 50)) * 10]], ['atty', 0, ['lit', draw(st.integers(-30, 60)) * 10]]]
                actions.append(it)
            rules.append(dict(items=items, constraint=None, actions=actions, adjust=draw(st.sampled_from([0, 0, 0, -1, 1 - blen]))))
        passes.append(dict(pre=0, maxloop=draw(st.sampled_from([2, 5, 200])), rules=rules, reverse=False))
    spec['passes'] = passes
    return spec


@st.composite
def wild_case(draw, max_len=24, nprobes=4, attach_bias=1):
    """attach_bias: out of 8 cases, how many come from attach_spec (C04 asks for more)."""
    if draw(st.integers(0, 7)) < attach_bias:
        spec = draw(attach_spec())
    else:
        spec = fix_refs(draw(wild_spec()))
    probes = []
    for _ in range(draw(st.integers(1, nprobes))):
        pr = draw(gdlgen.probe(spec, max_len))
        pr['dir'] = draw(st.integers(0, 7))
        pr['enc'] = draw(st.sampled_from([1, 2, 4]))
        pr['ppm'] = draw(st.sampled_from([0.0, 0.0, 12.0, 1000.0, -13.0]))
        if spec.get('pseudos') and draw(st.booleans()):
            pr['text'].insert(draw(st.integers(0, len(pr['text']))), spec['pseudos'][0][0])
        probes.append(pr)
    return dict(spec=spec, probes=probes)
