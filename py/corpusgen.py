"""Seed corpus for the fuzzers and sweeps (generated at setup, deterministic):
   corpus/min/<font>.ttf        minified shipped fonts (glyph outlines dropped, bounding boxes kept)
   corpus/synth/NNN.ttf + .json  synthesised GDL-lite fonts (all Silf/Glat versions)
   corpus/fz_shape/, corpus/fz_face/   header + font seeds for the libFuzzer targets
"""
import os, sys, json, struct, hashlib, shutil
from paths import VERIF, REPO, CORPUS
import sfnt, fonts


def synth_specs(n, seed=20260925):
    from hypothesis import given, settings, seed as hseed, HealthCheck, Phase
    import gdlgen
    out = []

    @hseed(seed)
    @settings(max_examples=n, database=None, deadline=None, suppress_health_check=list(HealthCheck), phases=[Phase.generate])
    @given(gdlgen.c06_case(max_len=12, nprobes=2))
    def t(case):
        out.append(case)
    t()
    try:
        import wildgen

        @hseed(seed + 1)
        @settings(max_examples=n, database=None, deadline=None, suppress_health_check=list(HealthCheck), phases=[Phase.generate])
        @given(wildgen.wild_case())
        def t2(case):
            out.append(case)
        t2()
    except ImportError:
        pass
    return out


def shape_header(opts=0, enc=0, dir=0, textlen=8, text=b'', flags=0, sel=0):
    h = bytearray(64)
    h[0] = opts
    h[1] = enc
    h[2] = dir
    h[4] = textlen
    h[5] = flags
    h[15] = sel
    t = (text + bytes(range(48)))[:48]
    h[16:64] = t
    return bytes(h)


def main():
    import fontsynth
    for d in ('min', 'synth', 'fz_shape', 'fz_face', 'fz_lz4'):
        p = os.path.join(CORPUS, d)
        shutil.rmtree(p, ignore_errors=True)
        os.makedirs(p)
    small = []
    for name in fonts.SHIPPED:
        try:
            data = open(fonts.path(name), 'rb').read()
        except OSError:
            continue
        m = sfnt.minify(data)
        open(os.path.join(CORPUS, 'min', name), 'wb').write(m)
        small.append((name, m))
    synth = []
    for i, case in enumerate(synth_specs(60)):
        try:
            f = fontsynth.build_font(case['spec'])
        except ValueError:
            continue
        open(os.path.join(CORPUS, 'synth', '%03d.ttf' % i), 'wb').write(f)
        json.dump(case, open(os.path.join(CORPUS, 'synth', '%03d.json' % i), 'w'))
        synth.append(('synth%03d' % i, f, case))
    # compressed twins (Silf v5 / Glat v3 stored LZ4-compressed with a seeded random valid encoding): seeds for the
    # decompression paths of the loader (C01, C14, C16)
    import lz4ref, random, struct
    rngz = random.Random(11)
    nz = 0
    for i, case in enumerate(synth_specs(12, seed=777)):
        spec = dict(case['spec'], silf_version=0x00050000, glat_version=3)
        try:
            t = fontsynth.build_tables(spec)
        except ValueError:
            continue
        ok = True
        for tag in (b'Silf', b'Glat'):
            blk, st = lz4ref.encode_with(t[tag], lambda kind, lo, hi: rngz.randint(lo, hi))
            if len(blk) >= len(t[tag]) or len(blk) < 13:
                ok = False; break
            t[tag] = t[tag][:4] + struct.pack('>I', (1 << 27) | len(t[tag])) + blk
        if not ok:
            continue
        f = sfnt.build(t)
        open(os.path.join(CORPUS, 'synth', 'z%03d.ttf' % i), 'wb').write(f)
        synth.append(('synthz%03d' % i, f, case))
        nz += 1
    # feature / language / name-table rich fonts (C18's strategy): seeds for the Feat / Sill / name parsers
    try:
        from hypothesis import given, settings, seed as hseed, HealthCheck, Phase
        import props.c18 as c18
        fspecs = []

        @hseed(4242)
        @settings(max_examples=10, database=None, deadline=None, suppress_health_check=list(HealthCheck), phases=[Phase.generate])
        @given(c18.feat_strategy())
        def tf(fs):
            fspecs.append(fs)
        tf()
        nfz = 0
        for i, fs_ in enumerate(fspecs):
            if len(fs_['feats']) > 64:
                continue
            try:
                f = fontsynth.build_font(c18.spec_of(fs_))
            except (ValueError, KeyError, struct.error):
                continue
            open(os.path.join(CORPUS, 'synth', 'f%03d.ttf' % i), 'wb').write(f)
            synth.append(('synthf%03d' % i, f, dict(probes=[dict(text=[97, 98, 97])])))
            nfz += 1
    except ImportError:
        pass
    nseed = 0
    for name, f, case in synth:
        txt = bytes((c - 0x61) % 26 for pr in case['probes'] for c in pr['text'])[:48]
        for k, (opts, enc, d) in enumerate([(0, 2, 0), (6, 0, 1), (0x0A, 1, 0)]):
            if k and nseed % 3:
                continue
            open(os.path.join(CORPUS, 'fz_shape', '%s_%d' % (name, k)), 'wb').write(shape_header(opts, enc, d, min(len(txt), 24) or 6, txt) + f)
        open(os.path.join(CORPUS, 'fz_face', name), 'wb').write(bytes(16) + f)
        nseed += 1
    for name, m in small:
        if len(m) > 160000:
            continue
        open(os.path.join(CORPUS, 'fz_shape', name + '_0'), 'wb').write(shape_header(0, 2, 0, 16, bytes(range(0, 96, 2)), sel=3) + m)
        open(os.path.join(CORPUS, 'fz_shape', name + '_1'), 'wb').write(shape_header(0x0E, 0, 1, 24, bytes(range(1, 97, 2)), flags=1, sel=11) + m)
        open(os.path.join(CORPUS, 'fz_face', name), 'wb').write(bytes(16) + m)
        open(os.path.join(CORPUS, 'fz_face', name + '_pre'), 'wb').write(bytes([6, 0]) + bytes(14) + m)
    # fz_lz4 seeds: valid encodings of table slices and periodic strings (u16 size selector 0 = exact)
    import lz4ref, random
    rng = random.Random(7)
    k = 0
    plains = [f[200:200 + 900] for _, f, _ in synth[:8]] + [b'abcd' * 200, bytes(range(256)) * 3 + bytes(range(256)), b'\0' * 700, (b'xyz' * 5 + b'Q') * 60]
    for pl in plains:
        for _ in range(3):
            blk, st = lz4ref.encode_with(pl, lambda kind, lo, hi: rng.randint(lo, hi))
            open(os.path.join(CORPUS, 'fz_lz4', '%03d' % k), 'wb').write(b'\0\0' + blk)
            k += 1
    print('corpus: %d minified, %d synthesised, %d fz_shape seeds, %d fz_face seeds' % (
        len(small), len(synth), len(os.listdir(os.path.join(CORPUS, 'fz_shape'))), len(os.listdir(os.path.join(CORPUS, 'fz_face')))))


if __name__ == '__main__':
    main()
