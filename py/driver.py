"""Spawn and feed grdrv; turn crashes and hangs into Python exceptions."""
import os, struct, subprocess, json, select, signal, tempfile, re, time

from paths import VERIF, BUILD
ASAN_OPTS = 'abort_on_error=0:detect_leaks=1:allocator_may_return_null=1:symbolize=1:exitcode=77:malloc_context_size=12:detect_stack_use_after_return=0:max_allocation_size_mb=512'
UBSAN_OPTS = 'print_stacktrace=1:halt_on_error=1:exitcode=78'
os.environ.setdefault('ASAN_SYMBOLIZER_PATH', '/usr/bin/llvm-symbolizer-14')


class DriverCrash(Exception):
    """The driver died while executing a request (sanitizer report, signal)."""
    def __init__(self, kind, summary, stderr):
        super().__init__('%s: %s' % (kind, summary))
        self.kind = kind          # 'asan' | 'ubsan' | 'lsan' | 'signal' | 'exit'
        self.summary = summary
        self.stderr = stderr


class DriverHang(Exception):
    """The driver did not answer within the watchdog limit."""


def summarize(stderr):
    """Short, stable label of a sanitizer report: kind + top frames inside /repo/src."""
    kind = 'exit'
    m = re.search(r'ERROR: AddressSanitizer: ([\w-]+)', stderr)
    what = ''
    if m:
        kind, what = 'asan', m.group(1)
    elif 'LeakSanitizer' in stderr or 'detected memory leaks' in stderr:
        kind, what = 'lsan', 'leak'
    else:
        m = re.search(r'runtime error: (.*)', stderr)
        if m:
            kind, what = 'ubsan', re.sub(r'0x[0-9a-f]+|\b\d+\b', 'N', m.group(1))[:80]
    frames = []
    for fm in re.finditer(r'#\d+ 0x[0-9a-f]+ in (\S+) (\S+)', stderr):
        fn, loc = fm.group(1), fm.group(2)
        if '/repo/' in loc:
            frames.append(fn.split('(')[0])
        if len(frames) >= 3:
            break
    return kind, (what + ' @ ' + ' < '.join(frames)).strip()


class Driver:
    def __init__(self, variant='asan-direct', exe='grdrv', timeout=20.0, extra_env=None):
        self.path = os.path.join(BUILD, variant, exe)
        self.timeout = timeout
        self.extra_env = extra_env or {}
        self.p = None
        self.errf = None
        self.ncases = 0
        self.restarts = 0
        self.fonts = {}          # id -> bytes (re-sent after a restart)
        self.font_ids = {}       # bytes hash -> id
        self.next_font = 1

    def start(self):
        env = dict(os.environ)
        env['ASAN_OPTIONS'] = ASAN_OPTS
        env['UBSAN_OPTIONS'] = UBSAN_OPTS
        env['TSAN_OPTIONS'] = 'halt_on_error=1:exitcode=79:second_deadlock_stack=1'
        env.update(self.extra_env)
        self.errf = tempfile.TemporaryFile()
        self.p = subprocess.Popen([self.path], stdin=subprocess.PIPE, stdout=subprocess.PIPE, stderr=self.errf, env=env, bufsize=0)
        self.ncases = 0
        self.restarts += 1
        self.log = [] if getattr(self, 'record', False) else None      # raw requests since this process started (C08: process-history replays)
        for fid, data in self.fonts.items():
            self._raw(b'P' + struct.pack('<I', fid) + struct.pack('<I', len(data)) + data)

    def stop(self):
        """Orderly shutdown.  Returns stderr text (LeakSanitizer reports at exit land here)."""
        err = ''
        if self.p:
            try:
                self.p.stdin.write(struct.pack('<I', 1) + b'Q')
                self.p.stdin.flush()
                self.p.stdin.close()
            except (BrokenPipeError, OSError):
                pass
            try:
                self.p.wait(timeout=30)
            except subprocess.TimeoutExpired:
                self.p.kill(); self.p.wait()
            rc = self.p.returncode
            self.errf.seek(0)
            err = self.errf.read().decode('latin-1')
            self.errf.close()
            self.p = None
            if rc != 0:
                kind, summ = summarize(err)
                raise DriverCrash(kind, 'at exit: ' + summ, err[-6000:])
        return err

    def kill(self):
        if self.p:
            try:
                self.p.kill(); self.p.wait()
            except OSError:
                pass
            try:
                self.errf.close()
            except OSError:
                pass
            self.p = None

    def _read_line(self, deadline):
        buf = b''
        fd = self.p.stdout.fileno()
        while True:
            left = deadline - time.time()
            if left <= 0:
                raise DriverHang()
            r, _, _ = select.select([fd], [], [], left)
            if not r:
                raise DriverHang()
            chunk = os.read(fd, 1 << 16)
            if not chunk:
                return None
            buf += chunk
            if buf.endswith(b'\n'):
                return buf

    def _raw(self, payload, timeout=None):
        if self.p is None:
            self.start()
        msg = struct.pack('<I', len(payload)) + payload
        if getattr(self, 'log', None) is not None:
            self.log.append(payload)
        try:
            self.p.stdin.write(msg)
            self.p.stdin.flush()
            line = self._read_line(time.time() + (timeout or self.timeout))
        except DriverHang:
            self.kill()
            raise
        except (BrokenPipeError, OSError):
            line = None
        if line is None:
            try:
                self.p.wait(timeout=30)
            except subprocess.TimeoutExpired:
                self.p.kill(); self.p.wait()
            rc = self.p.returncode
            self.errf.seek(0)
            err = self.errf.read().decode('latin-1')
            self.errf.close()
            self.p = None
            kind, summ = summarize(err)
            if kind == 'exit':
                kind = 'signal' if rc is not None and rc < 0 else 'exit'
                summ = 'rc=%s %s' % (rc, err[-300:])
            raise DriverCrash(kind, summ, err[-8000:])
        self.ncases += 1
        return json.loads(line)

    def call(self, payload, timeout=None):
        if self.p is not None and self.ncases >= 3000:
            self.stop()           # periodic restart: bounded state, and LSan gets to look at the exit
        return self._raw(payload, timeout)

    # ---- font store ------------------------------------------------------------------------
    def put_font(self, data):
        h = hash(data)
        fid = self.font_ids.get(h)
        if fid is not None and self.fonts.get(fid) == data:
            return fid
        if len(self.fonts) >= 48:                      # keep the store small
            old = next(iter(self.fonts))
            self.drop_font(old)
        fid = self.next_font; self.next_font += 1
        self.fonts[fid] = data
        self.font_ids[h] = fid
        self.call(b'P' + struct.pack('<I', fid) + struct.pack('<I', len(data)) + data)
        return fid

    def drop_font(self, fid):
        data = self.fonts.pop(fid, None)
        if data is not None:
            self.font_ids.pop(hash(data), None)
            if self.p is not None:
                self.call(b'X' + struct.pack('<I', fid))


def blob(b):
    return struct.pack('<I', len(b)) + bytes(b)


def shape_params(text_bytes, enc=4, dir=0, ppm=0.0, script=0, nchars=-1, nul=False, check_gid=False, dump=True,
                 query_all=False, all_sub=False, lang=None, feats=()):
    fl = (1 if nul else 0) | (2 if check_gid else 0) | (4 if dump else 0) | (8 if query_all else 0) | (16 if all_sub else 0) | (32 if lang is not None else 0)
    s = struct.pack('<fIBBiBI', ppm, script, enc, dir, nchars, fl, lang or 0)
    s += struct.pack('<H', len(feats)) + b''.join(struct.pack('<IH', i, v) for i, v in feats)
    return s + blob(text_bytes)


def encode_text(cps, enc):
    """Encode a list of scalar values / raw units.  Items may be ints (scalars) or ('raw', [units])."""
    out = []
    for c in cps:
        if isinstance(c, (tuple, list)):          # ('raw', [units]); a list after a JSON round trip
            out.extend(c[1])
            continue
        if enc == 4:
            out.append(c)
        elif enc == 2:
            if c >= 0x10000:
                c -= 0x10000
                out.extend([0xD800 + (c >> 10), 0xDC00 + (c & 0x3FF)])
            else:
                out.append(c)
        else:
            if c < 0x80: out.append(c)
            elif c < 0x800: out.extend([0xC0 | c >> 6, 0x80 | c & 0x3F])
            elif c < 0x10000: out.extend([0xE0 | c >> 12, 0x80 | (c >> 6) & 0x3F, 0x80 | c & 0x3F])
            else: out.extend([0xF0 | c >> 18, 0x80 | (c >> 12) & 0x3F, 0x80 | (c >> 6) & 0x3F, 0x80 | c & 0x3F])
    fmt = {1: 'B', 2: 'H', 4: 'I'}[enc]
    return struct.pack('<%d%s' % (len(out), fmt), *out)


def unit_offsets(cps, enc):
    """code-unit offset of each scalar under my encoder"""
    offs, o = [], 0
    for c in cps:
        offs.append(o)
        if enc == 4: o += 1
        elif enc == 2: o += 2 if c >= 0x10000 else 1
        else: o += 1 if c < 0x80 else 2 if c < 0x800 else 3 if c < 0x10000 else 4
    return offs
