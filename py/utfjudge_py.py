"""Python port of harness/utfref.h + utfjudge.h (used for replaying enumerator cases and for
classifying generated ill-formed insertions)."""
import struct


def wf8(p, i):
    n = len(p) - i
    if n <= 0:
        return 0, 0
    b0 = p[i]
    if b0 < 0x80:
        return 1, b0
    if 0xC2 <= b0 <= 0xDF:
        if n < 2 or not 0x80 <= p[i + 1] <= 0xBF:
            return 0, 0
        return 2, ((b0 & 0x1F) << 6) | (p[i + 1] & 0x3F)
    if 0xE0 <= b0 <= 0xEF:
        if n < 3:
            return 0, 0
        lo, hi = 0x80, 0xBF
        if b0 == 0xE0: lo = 0xA0
        if b0 == 0xED: hi = 0x9F
        if not lo <= p[i + 1] <= hi or not 0x80 <= p[i + 2] <= 0xBF:
            return 0, 0
        return 3, ((b0 & 0x0F) << 12) | ((p[i + 1] & 0x3F) << 6) | (p[i + 2] & 0x3F)
    if 0xF0 <= b0 <= 0xF4:
        if n < 4:
            return 0, 0
        lo, hi = 0x80, 0xBF
        if b0 == 0xF0: lo = 0x90
        if b0 == 0xF4: hi = 0x8F
        if not lo <= p[i + 1] <= hi or not 0x80 <= p[i + 2] <= 0xBF or not 0x80 <= p[i + 3] <= 0xBF:
            return 0, 0
        return 4, ((b0 & 7) << 18) | ((p[i + 1] & 0x3F) << 12) | ((p[i + 2] & 0x3F) << 6) | (p[i + 3] & 0x3F)
    return 0, 0


def surrogate8(p, i):
    return len(p) - i >= 3 and p[i] == 0xED and 0xA0 <= p[i + 1] <= 0xBF and 0x80 <= p[i + 2] <= 0xBF


def contains_wf8(b):
    """does any position of b start a well-formed (or surrogate-form) sequence?"""
    return any(wf8(b, i)[0] or surrogate8(b, i) for i in range(len(b)))


def units_of(enc, data):
    if enc == 1:
        return list(data)
    fmt = 'H' if enc == 2 else 'I'
    return list(struct.unpack('<%d%s' % (len(data) // enc, fmt), data[:len(data) // enc * enc]))


def scan(enc, u):
    n = len(u)
    s = dict(nul=n, strict_ok=True, lenient_ok=True, count_lenient=0, good_prefix=0, tail_truncated=False)
    i = 0
    while i < n:
        l, cp, sur = 0, 0, False
        if enc == 1:
            l, cp = wf8(u, i)
            if not l and surrogate8(u, i):
                sur, l, cp = True, 3, 0xD800
        elif enc == 2:
            x = u[i]
            if x < 0xD800 or x > 0xDFFF:
                l, cp = 1, x
            elif x < 0xDC00 and i + 1 < n and 0xDC00 <= u[i + 1] <= 0xDFFF:
                l, cp = 2, 0x10000
        else:
            x = u[i]
            if 0xD800 <= x <= 0xDFFF:
                sur, l, cp = True, 1, x
            elif x <= 0x10FFFF:
                l, cp = 1, x
        if l and not sur and cp == 0 and (enc != 2 or u[i] == 0):
            s['nul'] = i
            break
        if not l:
            s['strict_ok'] = s['lenient_ok'] = False
            break
        if sur:
            s['strict_ok'] = False
        s['good_prefix'] += 1
        i += l
    if s['lenient_ok']:
        s['count_lenient'] = s['good_prefix']
    if enc == 1 and n:
        for k in range(1, min(3, n) + 1):
            b = u[n - k]
            if b >= 0xC0:
                want = 4 if b >= 0xF0 else 3 if b >= 0xE0 else 2
                if k < want:
                    s['tail_truncated'] = True
                break
            if b < 0x80:
                break
    elif enc == 2 and n:
        if 0xD800 <= u[n - 1] <= 0xDBFF:
            s['tail_truncated'] = True
    return s


def judge(enc, data, bounded, count, err_off):
    u = units_of(enc, data)
    s = scan(enc, u)
    err = err_off >= 0
    if err and err_off >= len(u):
        return 'pError-outside-buffer'
    if err_off < -1:
        return 'pError-outside-buffer'
    tail = bounded and s['tail_truncated']
    if s['strict_ok'] and not tail:
        if err:
            return 'error-on-well-formed-text'
        if count != s['count_lenient']:
            return 'wrong-count-on-well-formed-text'
        return None
    if not s['lenient_ok'] and not err:
        return 'no-error-on-ill-formed-text'
    if err:
        if count > s['good_prefix']:
            return 'count-exceeds-well-formed-prefix'
        return None
    if s['lenient_ok'] and count != s['count_lenient']:
        return 'wrong-count'
    return None
