"""sfnt container reader/writer (independent of /repo)."""
import struct


def parse(data):
    """-> dict tag(bytes) -> table bytes (tables that lie outside the file are dropped)"""
    out = {}
    if len(data) < 12:
        return out
    n = struct.unpack('>H', data[4:6])[0]
    for i in range(n):
        e = data[12 + 16 * i: 28 + 16 * i]
        if len(e) < 16:
            break
        tag, _, off, ln = struct.unpack('>4sIII', e)
        if off + ln <= len(data):
            out[tag] = data[off:off + ln]
    return out


def build(tables, version=0x00010000):
    tags = sorted(tables)
    n = len(tags)
    hdr = struct.pack('>IHHHH', version, n, 0, 0, 0)
    off = 12 + 16 * n
    dirs, body = b'', b''
    for t in tags:
        d = tables[t]
        dirs += struct.pack('>4sIII', t, 0, off + len(body), len(d))
        body += d + b'\0' * (-len(d) % 4)
    return hdr + dirs + body


def table_ranges(data):
    """-> list of (tag, offset, length) for tables inside the file"""
    out = []
    if len(data) < 12:
        return out
    n = struct.unpack('>H', data[4:6])[0]
    for i in range(n):
        e = data[12 + 16 * i: 28 + 16 * i]
        if len(e) < 16:
            break
        tag, _, off, ln = struct.unpack('>4sIII', e)
        if off + ln <= len(data):
            out.append((tag, off, ln))
    return out


def minify(data):
    """Shrink a TrueType font for use as a fuzz seed: every glyph is reduced to its 10-byte header
    (the engine only reads bounding boxes), loca rebuilt (long format), other tables kept."""
    t = parse(data)
    if b'glyf' not in t or b'loca' not in t or b'head' not in t or b'maxp' not in t:
        return data
    head = bytearray(t[b'head'])
    long_loca = struct.unpack('>h', head[50:52])[0] != 0
    ng = struct.unpack('>H', t[b'maxp'][4:6])[0]
    loca = t[b'loca']
    offs = []
    for i in range(ng + 1):
        if long_loca:
            if 4 * i + 4 > len(loca): break
            offs.append(struct.unpack('>I', loca[4 * i:4 * i + 4])[0])
        else:
            if 2 * i + 2 > len(loca): break
            offs.append(2 * struct.unpack('>H', loca[2 * i:2 * i + 2])[0])
    if len(offs) != ng + 1:
        return data
    glyf = t[b'glyf']
    ng_out, new_offs = b'', [0]
    for i in range(ng):
        a, b = offs[i], offs[i + 1]
        if b > a and a + 10 <= len(glyf):
            ng_out += b'\0\0' + glyf[a + 2:a + 10] + b'\0\0'     # numberOfContours = 0 + bbox + pad
        new_offs.append(len(ng_out))
    ng_out += b'\0' * 12
    t[b'glyf'] = ng_out
    t[b'loca'] = b''.join(struct.pack('>I', o) for o in new_offs)
    head[50:52] = struct.pack('>h', 1)
    t[b'head'] = bytes(head)
    for drop in (b'post', b'fpgm', b'prep', b'cvt ', b'gasp', b'GDEF', b'GPOS', b'GSUB', b'DSIG', b'kern', b'hdmx', b'VDMX', b'LTSH', b'Glyp', b'Gdl ', b'Silt', b'Sild'):
        t.pop(drop, None)
    return build(t)
