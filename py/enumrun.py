"""Run an exhaustive enumerator / in-process PBT binary and interpret its outcome."""
import os, subprocess, json, re
from paths import BUILD
from driver import ASAN_OPTS, UBSAN_OPTS, summarize


def run_enum(exe, args, variant='asan-direct', timeout=3600, env_extra=None):
    """Returns (result_json_or_None, crash_dict_or_None).  crash: kind, summary, case (CURRENT-CASE), stderr."""
    env = dict(os.environ)
    env['ASAN_OPTIONS'] = ASAN_OPTS
    env['UBSAN_OPTIONS'] = UBSAN_OPTS
    if env_extra:
        env.update(env_extra)
    path = os.path.join(BUILD, variant, exe)
    try:
        r = subprocess.run([path] + [str(a) for a in args], stdout=subprocess.PIPE, stderr=subprocess.PIPE, env=env, timeout=timeout)
    except subprocess.TimeoutExpired:
        return None, dict(kind='timeout', summary='enumerator exceeded %ds (inconclusive)' % timeout, case=None, stderr='')
    err = r.stderr.decode('latin-1')
    out = r.stdout.decode('latin-1').strip().splitlines()
    res = None
    for line in reversed(out):
        if line.startswith('{'):
            try:
                res = json.loads(line)
                break
            except ValueError:
                pass
    if r.returncode != 0:
        kind, summ = summarize(err)
        case = None
        m = re.search(r'CURRENT-CASE (\{.*\})', err)
        if m:
            try:
                case = json.loads(m.group(1))
            except ValueError:
                case = dict(raw=m.group(1))
        if kind == 'exit':
            summ = 'rc=%d %s' % (r.returncode, err[-300:])
        return res, dict(kind=kind, summary=summ, case=case, stderr=err[-6000:])
    return res, None
