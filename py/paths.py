"""Locations.  VERIF_REPO / VERIF_BUILD can be overridden to run the machinery against a scratch
worktree (mutation-sensitivity experiments); registered commands never set them."""
import os
VERIF = os.path.dirname(os.path.dirname(os.path.abspath(__file__)))
REPO = os.environ.get('VERIF_REPO', '/repo')
BUILD = os.environ.get('VERIF_BUILD', os.path.join(VERIF, 'build'))
CORPUS = os.path.join(VERIF, 'corpus')
def exe(variant, name):
    return os.path.join(BUILD, variant, name)
_OUT = os.environ.get('VERIF_SCRATCH_OUT')
WORK = os.path.join(_OUT or VERIF, 'work')
REPLAY_OUT = os.path.join(_OUT or VERIF, 'replay-out')
EVIDENCE = os.path.join(_OUT or VERIF, 'evidence')
