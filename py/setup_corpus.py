#!/usr/bin/env python3-vt
"""Setup step: generate the seed corpus (synthesised fonts, minified shipped fonts, historical crashers)."""
import os, sys
sys.path.insert(0, os.path.dirname(os.path.abspath(__file__)))
try:
    import corpusgen
    corpusgen.main()
except ImportError:
    print('setup_corpus: corpus generator not present yet')
