"""Open known findings: how each is recognised (by label + the specific trigger), so that only that trigger
is excluded and any other violation of the same property is still reported.  The list itself lives in
/verif/known_findings.json (committed; never modified at run time)."""


def classify_label(prop, label, resp):
    """-> finding id if (prop, label) on this driver response is exactly a listed open finding, else None"""
    if prop == 'C05' and label == 'char-not-covered-by-any-slot' and resp.get('late', 0) > 0:
        return 'KF1'
    return None


def split_labels(resp, ctx=None):
    """-> (labels not explained by known findings: list of (prop, label), known hits: list of ids)"""
    out, hits = [], []
    for p, l in resp.get('labels', []):
        k = classify_label(p, l, resp)
        if k:
            hits.append(k)
        else:
            out.append((p, l))
    return out, hits
