"""Reference LZ4 block decoder (permissive) and a *generator of valid encodings* (C14).
Written from the LZ4 block format description; shares nothing with /repo/src/Decompressor.cpp."""
END_OK, TRUNCATED, BAD_OFFSET, TOO_LONG = 'end', 'truncated', 'bad_offset', 'too_long'


def decode(data, cap=1 << 26):
    """-> (stop_reason, output bytes decoded so far)"""
    out = bytearray()
    i, n = 0, len(data)
    if n == 0:
        return TRUNCATED, bytes(out)
    while True:
        if i >= n:
            return TRUNCATED, bytes(out)
        token = data[i]; i += 1
        ll = token >> 4
        if ll == 15:
            while True:
                if i >= n:
                    return TRUNCATED, bytes(out)
                b = data[i]; i += 1
                ll += b
                if b != 255:
                    break
        if ll > n - i:
            out += data[i:n]
            return TRUNCATED, bytes(out)
        if len(out) + ll > cap:
            out += data[i:i + cap - len(out)]
            return TOO_LONG, bytes(out)
        out += data[i:i + ll]
        i += ll
        if i == n:
            return END_OK, bytes(out)
        if n - i < 2:
            return TRUNCATED, bytes(out)
        off = data[i] | (data[i + 1] << 8)
        i += 2
        ml = token & 15
        if ml == 15:
            while True:
                if i >= n:
                    return TRUNCATED, bytes(out)
                b = data[i]; i += 1
                ml += b
                if b != 255:
                    break
        ml += 4
        if off == 0 or off > len(out):
            return BAD_OFFSET, bytes(out)
        for _ in range(ml):
            if len(out) >= cap:
                return TOO_LONG, bytes(out)
            out.append(out[-off])


def _len_ext(v):
    """bytes encoding the part of a length above 15"""
    out = bytearray()
    v -= 15
    while v >= 255:
        out.append(255); v -= 255
    out.append(v)
    return bytes(out)


def emit(seqs, tail):
    """seqs: list of (literals bytes, offset, match_len>=4); tail: final literals"""
    out = bytearray()
    for lit, off, ml in seqs:
        ll = len(lit)
        m = ml - 4
        out.append((min(ll, 15) << 4) | min(m, 15))
        if ll >= 15: out += _len_ext(ll)
        out += lit
        out += bytes([off & 0xFF, off >> 8])
        if m >= 15: out += _len_ext(m)
    ll = len(tail)
    out.append(min(ll, 15) << 4)
    if ll >= 15: out += _len_ext(ll)
    out += tail
    return bytes(out)


def encode_with(plain, choose):
    """Build a valid LZ4 block for `plain`.  choose(kind, lo, hi) -> int draws the random decisions
    ('lit' literal run length, 'cand' which earlier occurrence, 'len' match length, 'skip' whether to take a match).
    Honours the format's end conditions: the last 5 bytes are literals, the last match starts at least 12 bytes
    before the end of the block.  Returns (block bytes, stats dict)."""
    n = len(plain)
    index = {}
    seqs = []
    pos = 0            # next byte of plain to be encoded
    lit_start = 0
    stats = dict(matches=0, overlap=0, ext_lit=0, ext_match=0, boundary15=0, long_match=0)
    def add_index(upto):
        for q in range(add_index.done, max(add_index.done, upto)):
            if q + 4 <= n:
                index.setdefault(plain[q:q + 4], []).append(q)
        add_index.done = max(add_index.done, upto)
    add_index.done = 0
    while pos < n:
        # literal run
        run = choose('lit', 0, 40)
        pos = min(n, pos + run)
        if pos + 12 > n:             # no match may start in the last 12 bytes
            break
        add_index(pos)               # positions < pos are available as match sources (they may overlap pos)
        cands = [q for q in index.get(plain[pos:pos + 4], []) if pos - q <= 0xFFFF]
        if not cands or choose('skip', 0, 9) == 0:
            pos += 1
            continue
        q = cands[choose('cand', 0, len(cands) - 1)]
        # maximal match length under overlap semantics
        ml = 0
        while pos + ml < n - 5 and plain[q + ml] == plain[pos + ml]:
            ml += 1
        if ml < 4:
            pos += 1
            continue
        k = choose('len', 0, 5)
        if k == 0: ml = 4
        elif k == 1: ml = min(ml, choose('len2', 4, 40))
        elif k == 2 and ml >= 19: ml = 19            # match length code exactly 15 -> one extension byte 0
        elif k == 3 and ml >= 19 + 255: ml = 19 + 255
        off = pos - q
        lit = plain[lit_start:pos]
        seqs.append((lit, off, ml))
        stats['matches'] += 1
        if off < ml: stats['overlap'] += 1
        if len(lit) >= 15: stats['ext_lit'] += 1
        if ml - 4 >= 15: stats['ext_match'] += 1
        if len(lit) in (15, 270) or ml - 4 in (15, 270): stats['boundary15'] += 1
        if ml >= 270: stats['long_match'] += 1
        pos += ml
        lit_start = pos
    tail = plain[lit_start:]
    return emit(seqs, tail), stats
