"""Check runner: worker fan-out, Hypothesis chunking, violation confirmation, known findings, evidence."""
import shutil, os, sys, json, time, hashlib, subprocess, traceback, importlib, random, glob

from paths import VERIF, REPO, BUILD, WORK, REPLAY_OUT, EVIDENCE
PY = sys.executable


def h64(obj):
    if not isinstance(obj, (bytes, bytearray)):
        obj = json.dumps(obj, sort_keys=True, default=str).encode()
    return hashlib.blake2b(obj, digest_size=8).hexdigest()


class Violation(Exception):
    def __init__(self, label, case, detail=''):
        super().__init__('%s: %s' % (label, detail))
        self.label = label
        self.case = case
        self.detail = detail


try:
    from hypothesis.errors import UnsatisfiedAssumption as _Unsat
except Exception:                                  # tools run under the system python
    _Unsat = Exception


class Inconclusive(_Unsat):
    """Raised by a case that could not be judged (e.g. watchdog under load); never a violation.  Inside a Hypothesis
    test it counts as a rejected example (no shrinking, the chunk goes on); every instance is counted in the evidence."""
    count = 0

    def __init__(self, *a):
        super().__init__(*a[:1])
        Inconclusive.count += 1


class Hang(Exception):
    """A case tripped the per-case watchdog.  Not shrunk by Hypothesis (every shrink step would cost a timeout):
    the test function catches it, calls ctx.hang() and returns; run_hypothesis confirms it afterwards."""
    def __init__(self, case):
        super().__init__('watchdog')
        self.case = case


def load_known():
    p = os.path.join(VERIF, 'known_findings.json')
    if not os.path.exists(p):
        return []
    return json.load(open(p)).get('findings', [])


class Recorder:
    """Per-worker counters; merged by the parent."""
    def __init__(self, prop):
        self.prop = prop
        self.evaluations = 0
        self.nontrivial = set()
        self.classes = {}
        self.samples = []
        self.violations = []       # dicts: label, case, detail, replay
        self.known_hits = {}       # finding id -> count
        self.excluded = {}         # reason -> count (cases steered away from known findings)
        self.other = {}            # violations of *other* properties met on the way: 'Cxx:label' -> count
        self.inconclusive = 0
        self.notes = []
        self.sample_cap = 6

    def case(self, nontrivial_sig=None, sample=None, **classes):
        """Count one executed case.  nontrivial_sig: hashable signature if the case is non-trivial."""
        self.evaluations += 1
        if nontrivial_sig is not None:
            self.nontrivial.add(h64(nontrivial_sig))
            if sample is not None and len(self.samples) < self.sample_cap and (self.evaluations % 7 == 1 or len(self.samples) < 2):
                self.samples.append(sample)
        for k, v in classes.items():
            if v:
                self.classes[k] = self.classes.get(k, 0) + (v if isinstance(v, int) and not isinstance(v, bool) else 1)

    def count(self, k, n=1):
        self.classes[k] = self.classes.get(k, 0) + n

    def dump(self):
        return dict(evaluations=self.evaluations, nontrivial=sorted(self.nontrivial), classes=self.classes, samples=self.samples,
                    violations=self.violations, known_hits=self.known_hits, excluded=self.excluded, other=self.other,
                    inconclusive=self.inconclusive + Inconclusive.count, notes=self.notes)


class Ctx:
    def __init__(self, prop, tier, seed, k, nworkers, budget_s, scale=1.0):
        self.prop, self.tier, self.seed, self.k, self.nworkers = prop, tier, seed, k, nworkers
        self.budget_s = budget_s
        self.t0 = time.time()
        self.rec = Recorder(prop)
        self.known = [f for f in load_known() if f.get('property') == prop and f.get('status') == 'open']
        self.stop = False
        self.scale = scale
        self.hangs = []
        self.abort_chunk = False
        self.same = None           # label equivalence used when confirming by replay (default: equality)

    def thorough(self):
        return self.tier == 'thorough'

    def n(self, quick, thorough):
        return thorough if self.tier == 'thorough' else quick

    def time_left(self):
        return self.budget_s - (time.time() - self.t0)

    def rng(self, salt=0):
        return random.Random((self.seed * 1000003 + self.k * 7919 + salt) & 0xFFFFFFFF)

    def hang(self, case):
        self.hangs.append(case)
        self.abort_chunk = True

    def known_hit(self, fid):
        self.rec.known_hits[fid] = self.rec.known_hits.get(fid, 0) + 1

    def report(self, v, replay_fn=None, tries=3, need=3, same=None):
        """Confirm a candidate violation by replaying it (default: 3 times, all must fail the same way); record it (or
        record it as flaky).  Schedule-dependent properties pass tries/need (a sanitizer's race report is evidence by
        itself; the replays only have to reproduce it once) and `same`, the label equivalence."""
        case = v.case
        ok = 0
        same = same or self.same or (lambda a, b: a == b)
        if replay_fn is not None:
            for _ in range(tries):
                try:
                    replay_fn(case)
                except Violation as v2:
                    if same(v2.label, v.label):
                        ok += 1
                        if ok >= need:
                            break
                except Inconclusive:
                    pass
                except Exception as e:           # harness error during replay: do not count
                    self.rec.notes.append('replay error: %r' % (e,))
            if ok < need:
                # 0 reproductions of a violation the search did see: the replay path does not do what the search did (or the
                # engine's answer depends on what ran before in the same process) -- either way the run must not pass silently
                self.rec.notes.append('%s %s (%d/%d replays)' % ('HARNESS-BUG candidate violation never reproduced on replay:' if ok == 0 else 'FLAKY-NOT-REPORTED', v.label, ok, tries))
                if ok == 0:
                    os.makedirs(os.path.join(REPLAY_OUT, self.prop), exist_ok=True)
                    with open(os.path.join(REPLAY_OUT, self.prop, 'unreproduced-%s.json' % h64(case)[:8]), 'w') as f:
                        json.dump(dict(property=self.prop, label=v.label, detail=str(v.detail)[:4000], case=case), f, default=str)
                return False
        os.makedirs(os.path.join(REPLAY_OUT, self.prop), exist_ok=True)
        path = os.path.join(REPLAY_OUT, self.prop, '%s-%s.json' % (h64(v.label)[:8], h64(case)[:8]))
        with open(path, 'w') as f:
            json.dump(dict(property=self.prop, label=v.label, detail=str(v.detail)[:4000], case=case), f, default=str)
        self.rec.violations.append(dict(label=v.label, detail=str(v.detail)[:600], replay=path))
        return True

    def run_hypothesis(self, make_test, examples, chunk=None, replay_fn=None, stop_on_violation=True, share=1.0):
        """make_test(settings_decorator) -> zero-arg Hypothesis test.  Runs it in seeded chunks until the
        example count or the time budget is reached.  A failing chunk yields a shrunk Violation."""
        from hypothesis import settings, seed as hseed, HealthCheck, Phase
        try:
            # shrinking a case whose every evaluation builds a font and shapes through the driver is slow; a smaller
            # reproduction is nice to have, a verdict within the tier's budget is the point (default cap: 300 s)
            import hypothesis.internal.conjecture.engine as _eng
            _eng.MAX_SHRINKING_SECONDS = 60 if self.tier == 'quick' else 240
        except Exception:
            pass
        chunk = chunk or max(20, min(examples, 250))
        done = 0
        ci = 0
        # wall-clock cap (load protection only; case counts are the budget): this call may use `share` of what is left
        until = time.time() + max(0.0, self.time_left()) * share
        while done < examples and time.time() < until and not self.stop:
            nex = min(chunk, examples - done)
            st = settings(max_examples=nex, database=None, deadline=None, derandomize=False, report_multiple_bugs=False,
                          suppress_health_check=list(HealthCheck), phases=[Phase.generate, Phase.shrink], print_blob=False)
            sd = (self.seed * 1000 + self.k) * 100003 + ci
            test = make_test(lambda f, st=st, sd=sd: hseed(sd)(st(f)))
            try:
                test()
            except Violation as v:
                self.report(v, replay_fn)
                if stop_on_violation:
                    self.stop = True
            except Inconclusive:
                pass
            except Exception as e:
                if type(e).__name__ == 'Unsatisfiable' and Inconclusive.count:
                    self.rec.notes.append('a chunk produced only unjudgeable cases (%d so far)' % Inconclusive.count)
                    done += nex; ci += 1
                    continue
                # Hypothesis wraps failures it could not reproduce identically (Flaky / FlakyFailure groups): dig out the
                # Violation it saw and let the 3x replay confirmation decide whether it is reported
                v = _find_violation(e)
                if v is None:
                    if type(e).__name__ in ('FlakyStrategyDefinition', 'Flaky', 'FlakyFailure', 'FlakyReplay'):
                        # an example behaved differently when Hypothesis re-ran it (a watchdog or the abort flag changed in between):
                        # the chunk is dropped and counted, the search goes on
                        self.rec.count('chunks_dropped_hypothesis_flaky')
                        done += nex; ci += 1
                        continue
                    raise
                self.report(v, replay_fn)
                if stop_on_violation:
                    self.stop = True
            if self.hangs:
                # watchdog candidates: the module's replay function re-runs the case alone with a long limit, three times
                for case in self.hangs[:1]:
                    try:
                        if replay_fn is not None:
                            replay_fn(dict(case, confirm_hang=True))
                        self.rec.notes.append('watchdog tripped but the case completed when re-run alone (load): not reported')
                        self.rec.inconclusive += 1
                    except Violation as v:
                        self.report(v, None)
                        self.stop = True
                    except Inconclusive:
                        pass
                self.hangs = []
                self.abort_chunk = False
            done += nex
            ci += 1
        if done < examples and not self.stop:
            self.rec.count('examples_cut_by_wall_clock_cap', examples - done)
        return done


def _find_violation(e, depth=0):
    if isinstance(e, Violation):
        return e
    if depth > 6 or e is None:
        return None
    for sub in getattr(e, 'exceptions', []) or []:
        v = _find_violation(sub, depth + 1)
        if v is not None:
            return v
    for sub in (e.__cause__, e.__context__):
        v = _find_violation(sub, depth + 1)
        if v is not None:
            return v
    return None


def worker_main(modname, prop, tier, seed, k, nworkers, budget_s, outpath):
    sys.path.insert(0, os.path.join(VERIF, 'py'))
    mod = importlib.import_module(modname)
    ctx = Ctx(prop, tier, seed, k, nworkers, budget_s)
    err = None
    try:
        mod.worker(ctx)
    except Exception:
        err = traceback.format_exc()
    d = ctx.rec.dump()
    d['error'] = err
    d['wall_s'] = time.time() - ctx.t0
    with open(outpath, 'w') as f:
        json.dump(d, f, default=str)


def merge(parts):
    m = dict(evaluations=0, nontrivial=set(), classes={}, samples=[], violations=[], known_hits={}, excluded={}, other={}, inconclusive=0, notes=[], errors=[])
    for d in parts:
        m['evaluations'] += d.get('evaluations', 0)
        m['nontrivial'].update(d.get('nontrivial', []))
        for key in ('classes', 'known_hits', 'excluded', 'other'):
            for k, v in d.get(key, {}).items():
                m[key][k] = m[key].get(k, 0) + v
        m['samples'].extend(d.get('samples', []))
        m['violations'].extend(d.get('violations', []))
        m['inconclusive'] += d.get('inconclusive', 0)
        m['notes'].extend(d.get('notes', []))
        if d.get('error'):
            m['errors'].append(d['error'])
    return m


def run_workers(modname, prop, tier, seed, nworkers, budget_s):
    """Fan out `nworkers` processes running modname.worker(ctx); returns merged dict."""
    for old in glob.glob(os.path.join(WORK, prop, 'parts_*')):
        pid = old.rsplit('_', 1)[-1]
        if not (pid.isdigit() and os.path.exists('/proc/' + pid)):
            shutil.rmtree(old, ignore_errors=True)
    wd = os.path.join(WORK, prop, 'parts_%d' % os.getpid())      # per run: overlapping runs of one check must not share files
    os.makedirs(wd, exist_ok=True)
    procs = []
    for k in range(nworkers):
        out = os.path.join(wd, 'part-%d.json' % k)
        code = 'import sys; sys.path.insert(0, %r); import framework; framework.worker_main(%r, %r, %r, %d, %d, %d, %r, %r)' % (
            os.path.join(VERIF, 'py'), modname, prop, tier, seed, k, nworkers, budget_s, out)
        procs.append((subprocess.Popen([PY, '-c', code], cwd=VERIF), out))
    parts = []
    for p, out in procs:
        try:
            p.wait(timeout=budget_s * 4 + 600)
        except subprocess.TimeoutExpired:
            p.kill(); p.wait()
        if os.path.exists(out):
            parts.append(json.load(open(out)))
        else:
            parts.append(dict(error='worker produced no output (rc=%s)' % p.returncode))
    return merge(parts)


def write_evidence(prop, tier, seed, level, m, rule, wall_s, assumptions, extra=None, exhaustive=None):
    os.makedirs(EVIDENCE, exist_ok=True)
    if not m['samples']:
        m['samples'] = [dict(violating_case=v.get('replay'), label=v.get('label')) for v in m['violations'][:3]]
    cov = dict(evaluations=int(m['evaluations']), distinct_nontrivial=len(m['nontrivial']) if not isinstance(m['nontrivial'], int) else m['nontrivial'],
               rule=rule, samples=m['samples'][:8], classes=m['classes'], known_findings_hit=m['known_hits'],
               excluded_by_construction=m['excluded'], other_property_violations=m['other'], inconclusive=m['inconclusive'], notes=m['notes'][:20])
    if exhaustive is not None:
        cov['exhaustive'] = bool(exhaustive)
    if extra:
        cov.update(extra)
    ev = dict(property_id=prop, tier=tier, seed=int(seed), level=level, coverage=cov, assumptions=assumptions, wall_s=round(wall_s, 2), violations=len(m['violations']))
    path = os.path.join(EVIDENCE, prop + '.json')
    with open(path, 'w') as f:
        json.dump(ev, f, indent=1, default=str)
    try:
        import jsonschema
        schema = json.load(open(os.path.join(VERIF, 'schemas', 'EVIDENCE.schema.json')))
        try:
            jsonschema.validate(json.load(open(path)), schema)
        except jsonschema.exceptions.ValidationError as e:
            sys.stderr.write('WARNING: evidence file %s does not validate: %s\n' % (path, e.message))
    except ImportError:
        pass
    return path


def finish(prop, m, known_all):
    """Print KNOWN-FINDING / VIOLATION lines and return the exit code."""
    for f in known_all:
        if f.get('property') == prop and f.get('status') == 'open':
            print('KNOWN-FINDING: property=%s %s [%s] (met %d times in this run)' % (prop, f['what'], f['id'], m['known_hits'].get(f['id'], 0)))
    hb = [n for n in m.get('notes', []) if str(n).startswith('HARNESS-BUG')]
    seen = set()
    rc = 0
    for v in m['violations']:
        if v['label'] in seen:
            continue
        seen.add(v['label'])
        print('VIOLATION property=%s replay=%s label=%s' % (prop, v['replay'], v['label']))
        rc = 1
    if m['errors'] or hb:
        sys.stderr.write('CHECK BROKEN (harness error):\n' + '\n'.join([str(x) for x in (m['errors'] + hb)[:3]]) + '\n')
        if rc == 0:
            rc = 2
    if rc == 0 and not m.get('evaluations'):
        sys.stderr.write('CHECK BROKEN: nothing was evaluated\n')
        rc = 2
    nt = m.get('nontrivial')
    nt = nt if isinstance(nt, int) else len(nt or [])
    if rc == 0 and nt < 2:
        sys.stderr.write('CHECK BROKEN: fewer than 2 distinct non-trivial cases were evaluated (the evidence record would be void)\n')
        rc = 2
    return rc
