"""Hypothesis strategies for GDL-lite programs (font specs) -- the C06 regime and the "wild" regime."""
import os
from hypothesis import strategies as st
import fontsynth as fs

A0 = fs.A_FIRST_FREE          # first glyph attribute id free for rule constraints
NGATTR_USER = 3               # glyph attributes A0 .. A0+2 carry small integers


def cp_of(gid):
    return 0x60 + gid           # gid 1 -> 'a'


@st.composite
def expr(draw, refs, nfeats, nuser, depth=0, allow_user=True, boolean=False):
    """refs: allowed slot refs (relative to the current item).  Values stay small so nothing overflows 16 bit."""
    leaf = []
    leaf.append(st.tuples(st.just('lit'), st.integers(-3, 6)).map(list))
    if refs:
        leaf.append(st.tuples(st.just('gattr'), st.integers(A0, A0 + NGATTR_USER - 1), st.sampled_from(refs)).map(list))
        if allow_user and nuser:
            leaf.append(st.tuples(st.just('user'), st.integers(0, nuser - 1), st.sampled_from(refs)).map(list))
        if nfeats:
            leaf.append(st.tuples(st.just('feat'), st.integers(0, nfeats - 1), st.sampled_from(refs)).map(list))
    if depth >= 2:
        return draw(st.one_of(leaf))
    k = draw(st.integers(0, 9))
    if k < 4:
        return draw(st.one_of(leaf))
    sub = lambda: draw(expr(refs, nfeats, nuser, depth + 1, allow_user))
    if k < 8:
        ops = ['eq', 'ne', 'lt', 'gt', 'le', 'ge', 'and', 'or'] if boolean or k < 6 else ['add', 'sub', 'mul', 'min', 'max', 'bitand', 'bitor']
        return ['bin', draw(st.sampled_from(ops)), sub(), sub()]
    if k == 8:
        return ['not', sub()]
    return ['cond', sub(), sub(), sub()]


@st.composite
def c06_spec(draw, max_glyphs=9, max_passes=3):
    nreal = draw(st.integers(3, max_glyphs))
    nmarks = draw(st.integers(1, 3))
    n = 1 + nreal + nmarks                       # 0 = .notdef, 1..nreal letters, then marks (zero advance)
    marks = list(range(1 + nreal, n))
    letters = list(range(1, 1 + nreal))
    glyphs = []
    for g in range(n):
        adv = 0 if g in marks else draw(st.integers(10, 90)) * 10
        attrs = {}
        for a in range(NGATTR_USER):
            v = draw(st.integers(0, 3))
            if v:
                attrs[str(A0 + a)] = v
        glyphs.append(dict(adv=adv, bbox=[0, -100, max(adv - 20, 50), 600], attrs=attrs))
    cmap = {str(cp_of(g)): g for g in range(1, n)}
    nuser = draw(st.integers(1, 4))
    nfeat = draw(st.integers(0, 2))
    feats = []
    for i in range(nfeat):
        nset = draw(st.integers(2, 4))
        vals = draw(st.lists(st.integers(0, 5), min_size=nset, max_size=nset, unique=True))
        feats.append(dict(id=0x66303030 + i, settings=[[v, 300 + i] for v in vals], flags=0, name=256 + i))
    # classes: overlapping subsets; every glyph gets a singleton class so that any glyph can be an output
    classes = [[g] for g in range(1, n)]
    nextra = draw(st.integers(2, 6))
    for _ in range(nextra):
        pool = letters + marks if draw(st.integers(0, 3)) == 0 else letters
        classes.append(draw(st.lists(st.sampled_from(pool), min_size=1, max_size=4, unique=True)))
    classes.append(list(marks))
    mark_class = len(classes) - 1
    npass = draw(st.integers(1, max_passes))
    nsub = draw(st.integers(0, npass)) if npass > 1 else draw(st.integers(0, 1))
    passes = []
    for pi in range(npass):
        positioning = pi >= nsub
        pre = draw(st.integers(0, 2))
        nrules = draw(st.integers(1, 5))
        rules = []
        for _ in range(nrules):
            blen = draw(st.integers(1, 5 - pre))
            # (the last class sits at the end of the class data: 1 item in 8 names it, so that accepted corruptions there get used)
            items = [draw(st.integers(0, len(classes) - 1)) if draw(st.integers(0, 7)) else len(classes) - 1 for _ in range(pre + blen)]
            if rules and draw(st.integers(0, 1)) == 0:
                # compete with an earlier rule of this pass: same items, or a prefix / an extension of them
                base = list(rules[draw(st.integers(0, len(rules) - 1))]['items'])
                how = draw(st.integers(0, 2))
                if how == 1 and len(base) > pre + 1:
                    base = base[:draw(st.integers(pre + 1, len(base) - 1))]
                elif how == 2 and len(base) < 5:
                    base = base + [draw(st.integers(0, len(classes) - 1)) for _ in range(draw(st.integers(1, 5 - len(base))))]
                items = base
                blen = len(items) - pre
            L = pre + blen
            # constraint
            cons = None
            if draw(st.integers(0, 2)) == 0:
                cons = {'items': {}}
                if nfeat and draw(st.booleans()):
                    cons['global'] = draw(expr([0], nfeat, 0, boolean=True, allow_user=False))
                for k in draw(st.lists(st.integers(-pre, blen - 1), max_size=2, unique=True)):
                    refs = list(range(-(pre + k), L - (pre + k)))
                    cons['items'][str(k)] = draw(expr(refs, nfeat, nuser, boolean=True))
                if not cons['items'] and not cons.get('global'):
                    cons = None
            actions = []
            if not positioning:
                ninsert = 0
                touched = set()       # earlier body items whose associations / attributes this rule has modified
                def srcrefs(bi):
                    # refs whose *input* state the engine is guaranteed to read: pre-context, the current and later
                    # items, and earlier items this rule has not modified (DESIGN 5/C06 regime)
                    return [r for r in range(-pre, blen) if r < 0 or r > bi or r not in touched]
                for bi in range(blen):
                    if ninsert < 2 and draw(st.integers(0, 7)) == 0:
                        ninsert += 1
                        actions.append(dict(op='glyph', insert=True, cls=draw(st.integers(0, n - 2)),
                                            assoc=draw(st.lists(st.sampled_from(srcrefs(bi)), min_size=1, max_size=3, unique=True)), attrs=[]))
                    k = draw(st.integers(0, 9))
                    it = dict(op='keep', attrs=[])
                    if k == 4:
                        it = dict(op='glyph', cls=draw(st.integers(0, n - 2)), attrs=[])
                    elif k == 5:
                        ref = draw(st.integers(-pre, blen - 1))
                        it = dict(op='subs', ref=ref, attrs=[])
                        it['in'] = items[pre + ref]
                        it['out'] = draw(st.integers(0, len(classes) - 1)) if draw(st.integers(0, 3)) else len(classes) - 1
                    elif k == 6:
                        it = dict(op='copy', ref=draw(st.sampled_from(srcrefs(bi))), attrs=[])
                        if it['ref'] != bi:
                            touched.add(bi)
                    elif k == 7:
                        it = dict(op='delete', attrs=[])
                    if it['op'] != 'delete':
                        if draw(st.integers(0, 4)) == 0:
                            it['assoc'] = draw(st.lists(st.sampled_from(srcrefs(bi)), min_size=1, max_size=3, unique=True))
                            touched.add(bi)
                        if draw(st.integers(0, 3)) == 0:
                            # user attribute := expression over glyph attributes / features / user attrs of *later* items
                            later = list(range(1, blen - bi))
                            refs_g = list(range(-(pre + bi), blen - bi))
                            ex = draw(expr(refs_g, nfeat, 0, allow_user=False))
                            if later and draw(st.booleans()):
                                ex = ['bin', 'add', ex, ['user', draw(st.integers(0, nuser - 1)), draw(st.sampled_from(later))]]
                            it['attrs'].append(['user', draw(st.integers(0, nuser - 1)), ex])
                            touched.add(bi)
                    actions.append(it)
                if ninsert < 2 and srcrefs(blen) and draw(st.integers(0, 9)) == 0:
                    actions.append(dict(op='glyph', insert=True, cls=draw(st.integers(0, n - 2)),
                                        assoc=draw(st.lists(st.sampled_from(srcrefs(blen)), min_size=1, max_size=3, unique=True)), attrs=[]))
            else:
                for bi in range(blen):
                    it = dict(op='keep', attrs=[])
                    cls_marks_only = all(g in marks for g in classes[items[pre + bi]])
                    cls_no_marks = all(g not in marks for g in classes[items[pre + bi]])
                    k = draw(st.integers(0, 5))
                    refs_g = list(range(-(pre + bi), blen - bi))
                    if cls_marks_only and (pre + bi) > 0 and k < 4:
                        target = draw(st.integers(-pre, bi - 1))
                        ax, ay = draw(st.integers(0, 60)) * 10, draw(st.integers(-30, 60)) * 10
                        wx, wy = draw(st.integers(0, ax // 10)) * 10, draw(st.integers(-30, 30)) * 10
                        it['attrs'] += [['attach', target, None], ['attx', 0, ['lit', ax]], ['atty', 0, ['lit', ay]], ['withx', 0, ['lit', wx]], ['withy', 0, ['lit', wy]]]
                        if draw(st.booleans()):
                            it['attrs'].append(['shifty', 0, ['lit', draw(st.integers(-20, 20)) * 5]])
                    elif cls_no_marks and k < 4:
                        c = draw(st.integers(0, 3))
                        if c == 0:
                            it['attrs'].append(['advx', 0, ['lit', draw(st.integers(0, 99)) * 10]])
                            if draw(st.integers(0, 2)) == 0:
                                it['attrs'].append(['advy', 0, ['lit', draw(st.integers(-20, 20)) * 10]])
                        elif c == 1:
                            it['attrs'].append(['shiftx', 0, ['lit', draw(st.integers(-20, 20)) * 5]])
                            it['attrs'].append(['shifty', 0, ['lit', draw(st.integers(-20, 20)) * 5]])
                        elif c == 2:
                            it['attrs'].append(['shiftx', 0, ['bin', 'mul', ['gattr', draw(st.integers(A0, A0 + 2)), draw(st.sampled_from(refs_g))], ['lit', 10]]])
                        else:
                            it['attrs'].append(['advx', 0, ['bin', 'add', ['lit', 200], ['bin', 'mul', ['gattr', draw(st.integers(A0, A0 + 2)), draw(st.sampled_from(refs_g))], ['lit', 50]]]])
                    elif k == 5:
                        it['attrs'].append(['user', draw(st.integers(0, nuser - 1)), draw(expr(refs_g, nfeat, 0, allow_user=False))])
                    actions.append(it)
            n_in = blen
            n_out = sum(1 for a in actions if a['op'] != 'delete')
            adj = draw(st.integers(1 - n_in, 1)) if draw(st.integers(0, 2)) == 0 else 0
            # the cursor may not move in front of the output (it would re-enter the pre-context): clamp
            adj = max(adj, -n_out)
            if -adj > n_in - 1:
                adj = -(n_in - 1)
            rules.append(dict(items=items, constraint=cons, actions=actions, adjust=adj))
        passes.append(dict(pre=pre, maxloop=200, rules=rules, reverse=False))
    if draw(st.integers(0, 5)) == 0:
        # slot recycling: one pass marks glyph g with a user attribute, the next deletes g and inserts a fresh glyph in front of h;
        # the engine re-uses the freed slot for the insertion, and a fresh slot must not inherit anything from its previous life
        g, h, j = draw(st.integers(1, n - 1)), draw(st.integers(1, n - 1)), draw(st.integers(1, n - 1))
        k, v = draw(st.integers(0, nuser - 1)), draw(st.sampled_from([1, 2, 5, 300, -1]))
        mark = dict(pre=0, maxloop=200, reverse=False, rules=[dict(items=[g - 1], constraint=None, adjust=0,
                    actions=[dict(op='keep', attrs=[['user', k, ['lit', v]]])])])
        recycle = dict(pre=0, maxloop=200, reverse=False, rules=[
            dict(items=[g - 1], constraint=None, adjust=0, actions=[dict(op='delete', attrs=[])])] + ([] if h == g else [
            dict(items=[h - 1], constraint=None, adjust=0, actions=[dict(op='glyph', insert=True, cls=j - 1, assoc=[0], attrs=[]), dict(op='keep', attrs=[])])]))
        if draw(st.booleans()):
            passes[nsub:nsub] = [mark, recycle]
        else:
            # ... or g is duplicated over its left neighbour h by PUT_COPY: the copy carries every user attribute of g
            dup = dict(pre=0, maxloop=200, reverse=False, rules=[dict(items=[h - 1, g - 1], constraint=None, adjust=0,
                       actions=[dict(op='copy', ref=1, attrs=[]), dict(op='keep', attrs=[])])])
            passes[nsub:nsub] = [mark, dup]
        nsub += 2
    if draw(st.integers(0, 7)) == 0:
        # a base with three marks attached, then (next pass) the middle mark re-attached to the first one: the parent's child list loses
        # a member from its middle, and the remaining children must still be positioned
        b, mk = draw(st.sampled_from(letters)), draw(st.sampled_from(marks))
        def att(t, ax, ay):
            return dict(op='keep', attrs=[['attach', t, None], ['attx', 0, ['lit', ax]], ['atty', 0, ['lit', ay]], ['withx', 0, ['lit', 0]], ['withy', 0, ['lit', 0]]])
        three = dict(pre=0, maxloop=200, reverse=False, rules=[dict(items=[b - 1, mk - 1, mk - 1, mk - 1], constraint=None, adjust=0,
                     actions=[dict(op='keep', attrs=[]), att(0, 100, 300), att(0, 200, 400), att(0, 300, 500)])])
        regraft = dict(pre=0, maxloop=200, reverse=False, rules=[dict(items=[b - 1, mk - 1, mk - 1, mk - 1], constraint=None, adjust=0,
                       actions=[dict(op='keep', attrs=[]), dict(op='keep', attrs=[]), att(1, 50, 150), dict(op='keep', attrs=[])])])
        passes += [three, regraft]
    spec = dict(upem=1000, silf_version=draw(st.sampled_from([0x00020000, 0x00030000, 0x00040000, 0x00050000])),
                glat_version=draw(st.sampled_from([1, 2, 3])), gloc_long=draw(st.booleans()),
                dir=draw(st.integers(0, 1)), nuser=nuser, ngattr=A0 + NGATTR_USER + 1, glyphs=glyphs, cmap=cmap, classes=classes,
                passes=passes, nsubst=nsub, feats=feats, mark_class=mark_class)
    # class-map layout: classes[0:nlinear] are stored as linear glyph lists, the rest as sorted (glyph, index) lookup tables
    # searched by bisection; both encodings mean the same (no class above repeats a glyph), so the model does not care
    spec['nlinear'] = draw(st.sampled_from([len(classes), len(classes), 0, draw(st.integers(0, len(classes)))]))
    # 1 font in 3 carries *pass bits* (Silf aPassBits: a glyph attribute whose bit i says "this glyph takes no part in pass i"; the engine skips
    # pass i while every glyph the segment has ever held says so).  They are assigned the way the GDL compiler does — bit i is set exactly for
    # the glyphs that occur in no item class of any rule of pass i — so skipping is invisible and the reference model needs no notion of it;
    # an engine that skips a pass a glyph produced earlier has made necessary (seed S10-C06 hoisted the test out of the pass loop) disagrees.
    if draw(st.integers(0, 2)) == 0 and not any(p.get('reverse') for p in passes) and not os.environ.get('VERIF_NO_PASSBITS'):
        PB = A0 + NGATTR_USER + 1
        spec['ngattr'] = PB + 1
        spec['apassbits'] = PB
        for gi, g in enumerate(glyphs):
            bits = 0
            for pi, p in enumerate(passes[:8]):
                used = set()
                for r in p['rules']:
                    for ci in r['items']:
                        used.update(classes[ci])
                if gi not in used:
                    bits |= 1 << pi
            if bits:
                g.setdefault('attrs', {})[str(PB)] = bits
    # 1 font in 4 declares its first passes (often all of them) *line-break* passes (Silf iSubst > 0): the engine runs those exactly like
    # substitution passes, so neither the reference model nor any invariant changes (seed S7-C05 skipped associateChars for fonts whose
    # passes in front of the positioning stage are all line-break passes)
    if nsub and draw(st.integers(0, 3)) == 0 and not os.environ.get('VERIF_NO_LINEBREAK_PASSES'):      # (the switch exists for sensitivity experiments only)
        spec['ilb'] = draw(st.sampled_from([nsub, nsub, draw(st.integers(1, nsub))]))
    return spec


@st.composite
def probe(draw, spec, max_len=24):
    n = len(spec['glyphs'])
    # text: fragments that instantiate rule item sequences (so rules fire and compete) mixed with random glyphs
    text = []
    allrules = [r for p in spec['passes'] for r in p['rules']]
    nfrag = draw(st.integers(0, 8))
    for _ in range(nfrag):
        if draw(st.integers(0, 3)) == 0 or not allrules:
            text.append(draw(st.integers(1, n - 1)))
        else:
            r = allrules[draw(st.integers(0, len(allrules) - 1))]
            for c in r['items']:
                cl = [g for g in spec['classes'][c] if g >= 1]
                text.append(cl[draw(st.integers(0, len(cl) - 1))] if cl else 1)
    text = text[:max_len]
    fv = []
    for f in spec.get('feats', []):
        if draw(st.booleans()):
            fv.append([f['id'], draw(st.sampled_from([s[0] for s in f['settings']]))])
    return dict(text=[cp_of(g) for g in text], dir=draw(st.integers(0, 1)), feats=fv)


@st.composite
def c06_case(draw, max_len=24, nprobes=4):
    spec = draw(c06_spec())
    probes = draw(st.lists(probe(spec, max_len), min_size=1, max_size=nprobes))
    return dict(spec=spec, probes=probes)
