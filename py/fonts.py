"""Shipped fonts of the repository (read-only inputs) and text generation guided by their cmaps."""
import os, struct, json
from paths import REPO, CORPUS
import sfnt
from driver import blob

SHIPPED = ['Padauk.ttf', 'charis_r_gr.ttf', 'Scheherazadegr.ttf', 'Annapurnarc2.ttf', 'MagyarLinLibertineG.ttf', 'PigLatinBenchmark_v3.ttf',
           'general.ttf', 'grtest1gr.ttf', 'Awami_test.ttf', 'AwamiNastaliq-Regular.ttf', 'Awami_compressed_test.ttf', 'Charis5_eursub.ttf',
           'charis_fast.ttf', 'Scheherazadegr_noglyfs.ttf', 'small.ttf', 'tiny.ttf', 'underflow.ttf']
# fonts that gr_make_face accepts and that are cheap enough for per-case use
SMALL = ['Padauk.ttf', 'general.ttf', 'grtest1gr.ttf', 'Awami_test.ttf', 'PigLatinBenchmark_v3.ttf', 'small.ttf', 'MagyarLinLibertineG.ttf']


def path(name):
    return os.path.join(REPO, 'tests', 'fonts', name)


_cache = {}


def strip_subboxes(data):
    """Variant of a Glat v3 (octabox) font in which every glyph keeps its octabox but has no sub-boxes (bitmap 0): valid, and the
    shape a collision font has before its designer adds sub-boxes."""
    t = sfnt.parse(data)
    glat, gloc = t.get(b'Glat'), t.get(b'Gloc')
    if not glat or not gloc or struct.unpack('>I', glat[:4])[0] < 0x00030000 or (struct.unpack('>I', glat[4:8])[0] >> 27):
        return data
    ver, flags, nattr = struct.unpack('>IHH', gloc[:8])
    long_fmt = flags & 1
    w = 4 if long_fmt else 2
    n = (len(gloc) - 8) // w
    offs = struct.unpack('>%d%s' % (n, 'I' if long_fmt else 'H'), gloc[8:8 + w * n])
    out = bytearray(glat[:offs[0]])
    noffs = []
    for i in range(n - 1):
        d = glat[offs[i]:offs[i + 1]]
        noffs.append(len(out))
        if len(d) >= 6:
            num = bin(struct.unpack('>H', d[:2])[0]).count('1')
            out += b'\0\0' + d[2:6] + d[6 + 8 * num:]
        else:
            out += d
    noffs.append(len(out))
    if not long_fmt and noffs[-1] > 0xFFFF:
        return data
    t = dict(t)
    t[b'Glat'] = bytes(out)
    t[b'Gloc'] = gloc[:8] + struct.pack('>%d%s' % (n, 'I' if long_fmt else 'H'), *noffs) + gloc[8 + w * n:]
    return sfnt.build(t)


def load(name, minified=False):
    key = (name, minified)
    if key not in _cache and name.endswith('#nosub'):
        _cache[key] = strip_subboxes(load(name[:-6], minified))
    if key not in _cache:
        data = open(path(name), 'rb').read()
        if minified:
            mp = os.path.join(CORPUS, 'min', name)
            if os.path.exists(mp):
                data = open(mp, 'rb').read()
            else:
                data = sfnt.minify(data)
        _cache[key] = data
    return _cache[key]


def report_payload(fid, src=0, opts=0, labels=True, label_langs=(0x0409,), extra_langs=(), chars=(), scripts=(0,)):
    s = b'R' + struct.pack('<IBB', fid, src, opts) + bytes([1 if labels else 0])
    s += struct.pack('<H', len(label_langs)) + b''.join(struct.pack('<H', x) for x in label_langs)
    s += struct.pack('<H', len(extra_langs)) + b''.join(struct.pack('<I', x) for x in extra_langs)
    s += struct.pack('<H', len(chars)) + b''.join(struct.pack('<I', x) for x in chars)
    s += struct.pack('<H', len(scripts)) + b''.join(struct.pack('<I', x) for x in scripts)
    return s


_sup = {}


def supported(drv, name, data=None):
    """code points < 0x3000 (+ a few astral blocks) the face supports, via gr_face_is_char_supported"""
    if name in _sup:
        return _sup[name]
    cps = []
    data = data if data is not None else load(name)
    fid = drv.put_font(data)
    rng = list(range(1, 0x3000)) + list(range(0xA000, 0xAC00)) + list(range(0xFB00, 0x10000)) + list(range(0x10000, 0x10100)) + list(range(0x1F600, 0x1F650))
    for i in range(0, len(rng), 16000):
        chunk = rng[i:i + 16000]
        r = drv.call(report_payload(fid, 0, 0, labels=False, chars=chunk), timeout=120)
        if not r.get('face'):
            _sup[name] = []
            return []
        cps += [c for c, f in zip(chunk, r['report']['sup']) if f == '1']
    _sup[name] = cps
    return cps


def text_strategy(cps, min_size=0, max_size=24, extra=()):
    """Hypothesis strategy: list of scalars drawn with locality from `cps` (so rules fire), plus
    spaces, unmapped and astral characters."""
    from hypothesis import strategies as st
    cps = list(cps) or [0x41]
    n = len(cps)

    @st.composite
    def txt(draw):
        ln = draw(st.integers(min_size, max_size))
        base = draw(st.integers(0, n - 1))
        out = []
        for _ in range(ln):
            k = draw(st.integers(0, 99))
            if k < 70:
                out.append(cps[(base + draw(st.integers(0, 23))) % n])
            elif k < 82:
                out.append(0x20)
            elif k < 92:
                out.append(cps[draw(st.integers(0, n - 1))])
            elif k < 96 and extra:
                out.append(extra[draw(st.integers(0, len(extra) - 1))])
            else:
                out.append(draw(st.sampled_from([0x0301, 0x200C, 0x200D, 0x2028, 0xE000, 0xFFFD, 0xFFFF, 0x10000, 0x1F600, 0x10FFFF, 0x7F, 0x1])))
        return out
    return txt()
