"""Shared case strategies and shaping helpers for the differential / metamorphic checks (C08, C10, C15, C19)."""
import json, struct
from framework import Violation, Inconclusive
from driver import Driver, DriverCrash, DriverHang, shape_params, encode_text
import fonts, fontsynth, gdlgen, corpustext

# small.ttf / charis_fast.ttf / Charis5_eursub.ttf are the shipped fonts whose passes carry pass bits (glyphs that skip whole passes: seed S7-C15
# needed a text none of whose glyphs enters any pass)
SHIPPED_QUICK = ['Padauk.ttf', 'Scheherazadegr.ttf', 'general.ttf', 'Awami_test.ttf', 'small.ttf', 'charis_fast.ttf']
SHIPPED_ALL = SHIPPED_QUICK + ['charis_r_gr.ttf', 'Annapurnarc2.ttf', 'MagyarLinLibertineG.ttf', 'PigLatinBenchmark_v3.ttf', 'AwamiNastaliq-Regular.ttf', 'Awami_compressed_test.ttf',
                               'Charis5_eursub.ttf', 'grtest1gr.ttf']


def font_bytes(case):
    if case['kind'] == 'cmap':
        import props.c13 as c13
        try:
            return fontsynth.build_font(c13.base_spec(c13.build_cmap(case['cmap']), pseudos=case['cmap'].get('pseudos', ())))
        except (ValueError, struct.error):
            raise Inconclusive()
    if case['kind'] == 'spec':
        try:
            return fontsynth.build_font(case['spec'])
        except (ValueError, KeyError, IndexError, struct.error):
            raise Inconclusive()
    return fonts.load(case['font'])


def shape(drv, fid, case, src=0, opts=0, ppm=None, dump=True, timeout=60):
    tb = encode_text(case['text'], case.get('enc', 4))
    return drv.call(b'S' + struct.pack('<IBB', fid, src, opts) + shape_params(tb, enc=case.get('enc', 4), dir=case.get('dir', 0), ppm=case.get('ppm', 0.0) if ppm is None else ppm,
                    feats=[tuple(x) for x in case.get('feats', [])], lang=case.get('lang'), dump=dump), timeout=timeout)


def case_strategy(names, sup, max_len=24, well_formed_synth=True):
    """one case = a font (shipped name or synthesised C06-regime spec) and a probe"""
    from hypothesis import strategies as st

    @st.composite
    def gen(draw):
        if draw(st.integers(0, 2)) == 0:
            cc = draw(gdlgen.c06_case(max_len=min(max_len, 16), nprobes=1))
            pr = cc['probes'][0]
            return dict(kind='spec', spec=cc['spec'], text=pr['text'], dir=draw(st.integers(0, 7)), enc=draw(st.sampled_from([1, 2, 4])), feats=pr['feats'])
        f = draw(st.sampled_from(names))
        mode = draw(st.integers(0, 9))
        ls = corpustext.lines(f) if mode < 2 else None
        if ls:
            # 2 in 10 (fonts with a paired text file): a window of a real line, mostly in the script's own direction
            where, line = ls[draw(st.integers(0, len(ls) - 1))]
            a = draw(st.integers(0, max(0, len(line) - 4)))
            txt = line[a:a + draw(st.integers(2, 2 * max_len))]
            d = corpustext.natural_dir(f) if draw(st.integers(0, 2)) else draw(st.integers(0, 7))
            return dict(kind='shipped', font=f, text=txt, dir=d, enc=draw(st.sampled_from([1, 2, 4])), feats=[], line=where)
        if mode == 2 and sup[f]:
            # 1 in 10: a homogeneous text, every character from one window of 10 neighbours in cmap order (all punctuation, all digits, all
            # marks ...): texts whose glyphs all skip the same passes
            b = draw(st.integers(0, len(sup[f]) - 1))
            txt = [sup[f][(b + draw(st.integers(0, 9))) % len(sup[f])] for _ in range(draw(st.integers(2, 8)))]
            return dict(kind='shipped', font=f, text=txt, dir=draw(st.integers(0, 7)), enc=draw(st.sampled_from([1, 2, 4])), feats=[])
        txt = [c for c in draw(fonts.text_strategy(sup[f], 0, max_len)) if c]
        return dict(kind='shipped', font=f, text=txt, dir=draw(st.integers(0, 7)), enc=draw(st.sampled_from([1, 2, 4])), feats=[])
    return gen()


def supported_map(drv, names):
    return {f: fonts.supported(drv, f) for f in names}
