"""Shared implementation of the shaping-safety / structural-invariant checks (C02, C03, C04, C05).

Engines per run: (1) replay tier, (2) fz_shape libFuzzer campaign with the in-target oracle restricted to the
property under check, (3) Hypothesis: "wild" GDL-lite programs and shipped fonts x cmap-guided texts through
grdrv.  Each property only reports its own labels; what it meets of other properties is recorded in evidence."""
import os, sys, json, time, struct, glob
import framework as fw
from framework import Violation, Inconclusive
from driver import Driver, DriverCrash, DriverHang, shape_params, encode_text
import fonts, fontsynth, fuzzrun, known
from paths import CORPUS, VERIF

SHIPPED = ['Padauk.ttf', 'Scheherazadegr.ttf', 'charis_r_gr.ttf', 'Annapurnarc2.ttf', 'Awami_test.ttf', 'general.ttf', 'PigLatinBenchmark_v3.ttf',
           'MagyarLinLibertineG.ttf', 'AwamiNastaliq-Regular.ttf', 'Awami_compressed_test.ttf']

ILLFORMED = {
    1: [[0xC0, 0x80], [0xC1, 0xBF], [0xE0, 0x80, 0x80], [0xED, 0xA0, 0x80], [0xF4, 0x90, 0x80, 0x80], [0xF5, 0x80, 0x80, 0x80], [0xF8, 0x90, 0x80, 0x80], [0xF9, 0x90, 0x80, 0x80],
        [0xFC, 0x84, 0x80, 0x80], [0xFF], [0xFE], [0x80], [0xBF, 0xBF], [0xE2, 0x82], [0xF0, 0x9F, 0x98], [0xC3]],
    2: [[0xD800], [0xDC00], [0xDBFF, 0x41], [0xD800, 0xD800, 0xDC00], [0xDFFF, 0xD800]],
    4: [[0x110000], [0xD800], [0xDFFF], [0xFFFFFFFF], [0x7FFFFFFF]],
}
NONTRIV = {
    'C02': lambda r: r.get('fired', 0) > 0 or not r.get('seg'),
    'C03': lambda r: r.get('seg') and (r['st']['n'] != r['st']['nc'] or r['st']['reord'] or r.get('fired', 0) > 0),
    'C04': lambda r: r.get('seg') and r['st']['att'] > 0,
    'C05': lambda r: r.get('seg') and r['st']['assoc'],
}


def shape_case(drv, case, prop, cached=False):
    """Runs one case; returns the driver response.  Raises Violation for labels of `prop` (and sanitizer
    reports when prop == 'C02'); other properties' labels are returned for the evidence."""
    if case['kind'] == 'raw':
        import base64
        font = base64.b64decode(case['font_b64'])          # a self-contained font (e.g. a corrupted-but-accepted one found by the sweep)
        src, opts = case.get('src', 0), case.get('opts', 0)
    elif case['kind'] == 'spec':
        try:
            font = fontsynth.build_font(case['spec'])
        except (ValueError, KeyError, IndexError, struct.error):
            raise Inconclusive()
        src, opts = case.get('src', 0), case.get('opts', 0)
    else:
        font = fonts.load(case['font'])
        src, opts = 0x80, case.get('opts', 0)
    fid = drv.put_font(font)
    text = case['text']
    if case.get('repeat_to'):
        text = (text * (case['repeat_to'] // max(1, len(text)) + 1))[:case['repeat_to']]      # very long texts are stored as unit + length
    tb = encode_text(text, case.get('enc', 4))
    try:
        r = drv.call(b'S' + struct.pack('<IBB', fid, src, opts) + shape_params(tb, enc=case.get('enc', 4), dir=case.get('dir', 0), ppm=case.get('ppm', 0.0),
                     feats=[tuple(x) for x in case.get('feats', [])], check_gid=bool(case.get('check_gid')), dump=False, query_all=True, all_sub=bool(case.get('all_sub'))), timeout=200 if case.get('huge') else (40 if case.get('confirm_hang') else 15))
    except DriverCrash as e:
        if prop == 'C02':
            raise Violation('sanitizer:' + e.kind + ':' + e.summary, case, e.stderr[-1500:])
        return dict(crash=e.kind + ':' + e.summary, labels=[])
    except DriverHang:
        if prop == 'C02' and not case.get('confirm_hang'):
            raise fw.Hang(case)          # not shrunk (every step would cost a watchdog period); confirmed afterwards, alone
        if prop == 'C02':
            # confirmation: alone, 60 s limit, three times
            n = 1                    # the call above (confirm_hang: alone, long limit) was the first confirmation
            for _ in range(2):
                d2 = Driver(timeout=40)
                try:
                    fid2 = d2.put_font(font)
                    d2.call(b'S' + struct.pack('<IBB', fid2, src & 0x7f, opts) + shape_params(tb, enc=case.get('enc', 4), dir=case.get('dir', 0), ppm=case.get('ppm', 0.0), dump=False), timeout=40)
                except DriverHang:
                    n += 1
                except DriverCrash:
                    pass
                finally:
                    d2.kill()
            if n == 3:
                raise Violation('does-not-return', dict((k, v) for k, v in case.items() if k != 'confirm_hang'), 'gr_make_seg exceeded 40 s three times, alone in a fresh process (typical case: milliseconds)')
        raise Inconclusive()
    if 'error' in r:
        raise Inconclusive()
    return r


def judge(drv, case, prop, ctx=None):
    r = shape_case(drv, case, prop)
    if not r.get('face'):
        return r, []
    labels, hits = known.split_labels(r)
    if ctx is not None:
        for h in hits:
            ctx.known_hit(h)
    other = []
    for p, l in labels:
        if p == prop:
            raise Violation(l, case, json.dumps(r.get('st')))
        other.append(p + ':' + l)
    led = r.get('ledger')
    if led and (led['out'] or led['errors']):
        other.append('C16:ledger')
    return r, other


def replay_case(prop, case):
    if case.get('kind') == 'sweep':
        return replay_sweep(prop, case)
    if case.get('kind') == 'bin':
        res = fuzzrun.replay_bin(prop, 'fz_shape', case['path'], report=prop)
        if res and res[0] == prop:
            raise Violation(res[1], case, '')
        return
    drv = Driver()
    try:
        try:
            judge(drv, case, prop)
        except fw.Hang:
            drv.kill()
            drv = Driver()
            judge(drv, dict(case, confirm_hang=True), prop)
    finally:
        drv.kill()


def replay_file(prop, path):
    if path.endswith('.bin'):
        case = dict(kind='bin', path=path)
    else:
        case = json.load(open(path))['case']
        if 'probes' in case:
            # multi-probe case: replay each probe
            try:
                for pr in case['probes']:
                    replay_case(prop, dict(kind='spec', spec=case['spec'], **pr))
            except Violation as v:
                print('VIOLATION property=%s replay=%s label=%s' % (prop, path, v.label))
                return 1
            print('replay: property held on', path)
            return 0
    try:
        replay_case(prop, case)
    except Violation as v:
        print('VIOLATION property=%s replay=%s label=%s' % (prop, path, v.label))
        return 1
    print('replay: property held on', path)
    return 0


def worker(ctx, prop):
    from hypothesis import given, strategies as st
    import wildgen
    drv = Driver()
    rec = ctx.rec
    nt = NONTRIV[prop]

    def count(case, r, other):
        for o in other:
            rec.other[o] = rec.other.get(o, 0) + 1
        if r.get('crash'):
            rec.other['C02:' + r['crash']] = rec.other.get('C02:' + r['crash'], 0) + 1
        n = bool(r.get('face') and nt(r))
        st_ = r.get('st', {})
        rec.case(nontrivial_sig=json.dumps(case, sort_keys=True) if n else None,
                 sample=dict(kind=case['kind'], font=case.get('font', 'synthesised'), text=case['text'], dir=case.get('dir'), enc=case.get('enc'), slots=st_.get('n'), rules_fired=r.get('fired')) if n else None,
                 loaded=bool(r.get('face')), rejected=not r.get('face'), seg=bool(r.get('seg')), seg_null=bool(r.get('face') and not r.get('seg')),
                 rule_fired=r.get('fired', 0) > 0, attached=st_.get('att', 0) > 0, attach_depth2=st_.get('depth', 0) >= 2, reordered=bool(st_.get('reord')),
                 length_changed=st_.get('n') != st_.get('nc'), illformed_text=any(isinstance(c, (list, tuple)) for c in case['text']), assoc_nontrivial=bool(st_.get('assoc')), late_assoc=r.get('late', 0) > 0,
                 linebreak_passes=bool(case.get('spec', {}).get('ilb')) and bool(r.get('face')), only_linebreak_passes=bool(case.get('spec', {}).get('ilb')) and case['spec']['ilb'] >= case['spec'].get('nsubst', 99) and r.get('fired', 0) > 0,
                 long_text=len(case['text']) >= 512, loop_half_bound=any(p[0] * 2 > p[1] for p in r.get('passes', [])), growth_cap=st_.get('n', 0) > 32 * max(1, st_.get('nc', 1)))

    def make_wild(deco):
        @deco
        @given(wildgen.wild_case(max_len=ctx.n(16, 32), attach_bias=4 if prop == 'C04' else 1))
        def t(wc):
            if ctx.abort_chunk:
                return
            for pr in wc['probes']:
                case = dict(kind='spec', spec=wc['spec'], text=pr['text'], dir=pr['dir'], enc=pr['enc'], ppm=pr['ppm'], feats=pr['feats'], check_gid=False,
                            opts=(len(pr['text']) * 3 + pr['dir']) % 8)
                try:
                    r, other = judge(drv, case, prop, ctx)
                except fw.Hang:
                    ctx.hang(case)
                    return
                count(case, r, other)
        return t

    names = SHIPPED if ctx.thorough() else SHIPPED[:6]
    sup = {}
    for f in names:
        try:
            sup[f] = fonts.supported(drv, f)
        except (DriverCrash, DriverHang):
            sup[f] = []
    names = [f for f in names if sup[f]]

    def make_shipped(deco):
        @deco
        @given(st.data())
        def t(data):
            # every draw happens before anything that depends on the run's state (Hypothesis replays examples and requires identical draws)
            f = data.draw(st.sampled_from(names))
            txt = [c for c in data.draw(fonts.text_strategy(sup[f], 0, ctx.n(24, 64))) if c]
            if prop == 'C02' and txt and data.draw(st.integers(0, ctx.n(60, 12))) == 0:
                # work-bound class: long texts (the H1 bound scales with the slot count; the harness checks it per pass)
                # (collision-avoidance passes are quadratic in the text by design -- Awami: 4096 stacked marks take ~50 s alone -- and are not
                # rule loops; long texts on those fonts stay short enough that the watchdog can never mistake them for a hang)
                cap = ctx.n(512, 4096) if not f.startswith('Awami') else ctx.n(512, 768)
                txt = (txt * (cap // len(txt) + 1))[:cap]
            enc = data.draw(st.sampled_from([1, 2, 4]))
            if data.draw(st.integers(0, 3)) == 0:
                # ill-formed code-unit sequences (kept raw): every one must become exactly one U+FFFD char-info (C05) and be shaped safely (C02)
                for _ in range(data.draw(st.integers(1, 3))):
                    txt.insert(data.draw(st.integers(0, len(txt))), ['raw', list(data.draw(st.sampled_from(ILLFORMED[enc])))])
            case = dict(kind='shipped', font=f, text=txt, dir=data.draw(st.integers(0, 7)), enc=enc,
                        ppm=data.draw(st.sampled_from([0.0, 0.0, 14.0, -15.0])), check_gid=True)
            if ctx.abort_chunk:
                return
            try:
                r, other = judge(drv, case, prop, ctx)
            except fw.Hang:
                ctx.hang(case)
                return
            count(case, r, other)
        return t

    n = ctx.n(4000, 120000) // ctx.nworkers + 1
    rp = lambda c: replay_case(prop, c)
    ctx.run_hypothesis(make_wild, n, replay_fn=rp, share=0.5)
    ctx.run_hypothesis(make_shipped, n, replay_fn=rp)
    try:
        drv.stop()
    except DriverCrash as e:
        if prop == 'C02':
            ctx.report(Violation('sanitizer-at-exit:' + e.kind + ':' + e.summary, dict(kind='exit'), e.stderr[-1500:]))
        else:
            rec.other['C02:at-exit:' + e.summary] = 1


SWEEP_RULE = (' Very long texts: 70 000 characters (> 65 535 slots and code units) of 2-3 shipped fonts in 2-3 encodings, every invariant checked. Deterministic engine (enum_face sweep + shape): every single-site boundary corruption (7 byte values, +-1, 8 word values) of the tables of the synthesised seed fonts; '
              'each corrupted font the loader accepts is shaped with the font\'s own probe texts (UTF-32, both directions, unhinted / hinted / NULL font) under the same oracle; non-trivial there: a rule fired.')


def sweep_texts(font):
    """probe texts for a synthesised seed font: its stored probes, plus every mapped character in glyph order (twice)"""
    j = font[:-4] + '.json'
    texts = []
    if os.path.exists(j):
        c = json.load(open(j))
        texts = [p['text'] for p in c.get('probes', []) if p.get('text')][:2]
        cps = sorted(int(k) for k in c['spec'].get('cmap', {}))
        if cps:
            texts.append((cps + cps)[:16])
    return texts[:3]


def sweep_case_cmd(case):
    b = bytes.fromhex(case['bytes'])
    off = int.from_bytes(b[0:4], 'little'); val = int.from_bytes(b[4:8], 'little')
    return ['one', case['font'], off, val, b[8], b[9], b[10], case.get('shape') or 'shape']


def replay_sweep(prop, case):
    from enumrun import run_enum
    res, crash = run_enum('enum_face', sweep_case_cmd(case), timeout=200)
    if crash:
        if prop != 'C02':
            return
        if crash['kind'] == 'timeout' or 'HANG' in crash.get('stderr', ''):
            raise Violation('does-not-return', case, crash['stderr'][-800:])
        raise Violation('sanitizer:' + crash['kind'] + ':' + crash['summary'], case, crash['stderr'][-1500:])
    labels = [label[4:] for label in (res or {}).get('fails', {}) if label.startswith(prop + ':')]
    if case.get('label') in labels:          # a corrupted font may fail several clauses at once: confirm the one that was reported
        raise Violation(case['label'], case, '')
    if labels:
        raise Violation(labels[0], case, '')


def sweep_shape(ctx, prop, tier, workers):
    """Deterministic engine: every single-site boundary corruption (enum_face sweep) of the synthesised seed fonts that the
    loader ACCEPTS is shaped with the font's own probe texts; judged by the same invariants / sanitizers."""
    from enumrun import run_enum
    from concurrent.futures import ThreadPoolExecutor
    fs = sorted(glob.glob(os.path.join(CORPUS, 'synth', '*.ttf')))
    if tier == 'quick':
        fs = fs[::3]
    jobs = []
    for f in fs:
        tx = sweep_texts(f)
        arg = 'shape=' + ';'.join(','.join('%x' % c for c in t) for t in tx) if tx else 'shape'
        nparts = 2 if tier == 'quick' else 1
        k = (ctx.seed + len(jobs)) % nparts
        jobs.append((f, arg, ['sweep', f, k, nparts, arg]))
    with ThreadPoolExecutor(max_workers=workers) as ex:
        results = list(ex.map(lambda j: (j, run_enum('enum_face', j[2], timeout=3000)), jobs))
    m = fw.merge([])
    rp = lambda c: replay_sweep(prop, c)
    budget = [2]          # violations confirmed (3x replay each) per run; further sweep jobs that fail are only counted

    def report(v):
        if budget[0] > 0:
            budget[0] -= 1
            ctx.report(v, rp)
        else:
            m['classes']['sweep_further_failing_jobs_not_replayed'] = m['classes'].get('sweep_further_failing_jobs_not_replayed', 0) + 1
    for (font, arg, _), (res, crash) in results:
        if crash and crash['kind'] != 'timeout':
            case = dict(crash['case'] or {}, kind='sweep', font=font, shape=arg)
            if prop == 'C02':
                label = 'does-not-return' if 'HANG' in crash['stderr'] else 'sanitizer:' + crash['kind'] + ':' + crash['summary']
                report(Violation(label, case, crash['stderr'][-1500:]))
            else:
                m['other']['C02:' + crash['summary']] = m['other'].get('C02:' + crash['summary'], 0) + 1
        elif crash:
            m['inconclusive'] += 1
        if res:
            m['evaluations'] += res['shaped']
            m['classes']['sweep_corrupted_fonts_accepted_and_shaped'] = m['classes'].get('sweep_corrupted_fonts_accepted_and_shaped', 0) + res['loaded']
            m['classes']['sweep_shapings_with_rules_fired'] = m['classes'].get('sweep_shapings_with_rules_fired', 0) + res['shaped_fired']
            m['nt_sweep'] = m.get('nt_sweep', 0) + res['shaped_fired']
            for label, info in res['fails'].items():
                p, l = label.split(':', 1)
                if p == prop:
                    report(Violation(l, dict(info['first'], kind='sweep', font=font, shape=arg, label=l), 'count=%d' % info['count']))
                else:
                    m['other'][label] = m['other'].get(label, 0) + info['count']
    m['samples'].append(dict(engine='sweep+shape', font='corpus/synth/003.ttf', offset=412, value='0x7FFF', width=2, texts=sweep_texts(fs[1]) if len(fs) > 1 else None))
    return m


def main(prop, modname, tier, seed, workers, rule, assumptions, fuzz_ignore=()):
    t0 = time.time()
    ctx = fw.Ctx(prop, tier, seed, 0, 1, 3600)
    for f in sorted(glob.glob(os.path.join(VERIF, 'replay', prop, '*'))):
        try:
            if f.endswith('.bin'):
                replay_case(prop, dict(kind='bin', path=f))
            else:
                c = json.load(open(f))['case']
                replay_case(prop, c)
            ctx.rec.count('replay_files_passed')
        except Violation as v:
            ctx.report(v, lambda c: replay_case(prop, c))
        except Inconclusive:
            pass
    sm = sweep_shape(ctx, prop, tier, workers)
    import hugetext
    hm = hugetext.run(ctx, prop, tier, workers, judge, lambda c: replay_case(prop, c))
    secs = 35 if tier == 'quick' else 600
    fz = fuzzrun.campaign(prop, 'fz_shape', os.path.join(CORPUS, 'fz_shape'), secs, workers, seed, report=prop, ignore=list(fuzz_ignore))
    fm = fw.merge([])
    fm['evaluations'] = fz['stats'].get('execs', 0)
    fm['nontrivial'] = set('fz' + h for h in fz['nontrivial'])
    fm['classes'] = {'fz_' + k: v for k, v in fz['stats'].items() if not k.startswith('other_') and not k.startswith('known_') and not k.startswith('ignored_')}
    fm['other'] = {k[6:]: v for k, v in fz['stats'].items() if k.startswith('other_')}
    fm['known_hits'] = {k[6:]: v for k, v in fz['stats'].items() if k.startswith('known_')}
    fm['excluded'] = {k[8:]: v for k, v in fz['stats'].items() if k.startswith('ignored_')}
    fm['samples'] = [dict(engine='fz_shape', **s) for s in fz['samples'][:3]]
    fm['notes'] = fz['notes']
    for v in fz['violations']:
        if v['prop'] == prop:
            fm['violations'].append(dict(label=v['label'], detail=v['detail'][-600:], replay=v['replay']))
        else:
            fm['other'][v['prop'] + ':' + v['label']] = fm['other'].get(v['prop'] + ':' + v['label'], 0) + 1
    pm = fw.run_workers(modname, prop, tier, seed, workers, 100 if tier == 'quick' else 900)
    mm = fw.merge([dict(ctx.rec.dump(), error=None), dict(sm, nontrivial=[], error=None), dict(hm, nontrivial=[], error=None), dict(fm, nontrivial=sorted(fm['nontrivial']), error=None), dict(pm, nontrivial=sorted(pm['nontrivial']), error=None)])
    mm['nontrivial'] = len(mm['nontrivial']) + sm.get('nt_sweep', 0)     # sweep cases are distinct (offset, value, text) triples by construction
    mm['errors'] = pm['errors']
    if fz['stats'].get('execs', 0) < 1000:
        mm['errors'].append('fuzz campaign executed fewer than 1000 inputs (see work/%s/fz_fz_shape_<pid>/log)' % prop)
    fw.write_evidence(prop, tier, seed, 'exploration', mm, rule + SWEEP_RULE, time.time() - t0, assumptions, extra=dict(fuzz_wall_s=round(fz['wall'], 1)))
    return fw.finish(prop, mm, fw.load_known())
