"""libFuzzer campaign runner: fork-mode campaign, artifact triage (confirmation by 3 replays, label
extraction, de-duplication, seed-delta minimisation), statistics merge."""
import os, sys, json, subprocess, shutil, glob, re, time, hashlib
from paths import VERIF, BUILD, CORPUS, WORK, REPLAY_OUT
from driver import ASAN_OPTS, UBSAN_OPTS, summarize

FZ_ASAN = ASAN_OPTS.replace('abort_on_error=0', 'abort_on_error=0') + ':handle_abort=1'


def env_for(stats_path, report=None, ignore=None):
    env = dict(os.environ)
    env['ASAN_OPTIONS'] = FZ_ASAN
    env['UBSAN_OPTIONS'] = UBSAN_OPTS
    env['FZ_STATS'] = stats_path
    if report:
        env['FZ_REPORT'] = report
    else:
        env.pop('FZ_REPORT', None)
    if ignore:
        env['FZ_IGNORE'] = ','.join(ignore)
    return env


def run_once(target, path, env, timeout=120):
    """-> (rc, stderr text)"""
    try:
        r = subprocess.run([os.path.join(BUILD, 'asan-direct', target), '-timeout=60', '-rss_limit_mb=3000', path], stdout=subprocess.PIPE, stderr=subprocess.STDOUT, env=env, timeout=timeout)
        return r.returncode, r.stdout.decode('latin-1')
    except subprocess.TimeoutExpired:
        return -999, 'TIMEOUT'


def label_of(out):
    m = re.search(r'VIOLATE property=(\S+) label=(.*)', out)
    if m:
        return m.group(1), m.group(2).strip()
    kind, summ = summarize(out)
    if kind in ('asan', 'ubsan', 'lsan'):
        if kind != 'lsan' and '/repo/' not in out.split('SUMMARY')[0]:
            return 'HARNESS', 'harness-bug:' + kind + ':' + summ       # no frame of the library involved: my bug, never a finding
        return None, 'sanitizer:' + kind + ':' + summ
    if 'ERROR: libFuzzer: deadly signal' in out or 'SEGV' in out:
        return None, 'sanitizer:signal:' + summ
    return None, None


def merge_stats(path):
    tot, samples, nt = {}, [], set()
    if os.path.exists(path):
        for line in open(path):
            try:
                d = json.loads(line)
            except ValueError:
                continue
            samples += d.pop('samples', [])
            nt.update(d.pop('nt', []))
            for k, v in d.items():
                tot[k] = tot.get(k, 0) + v
    return tot, samples, nt


def nearest_seed(data, seeds_dir, hdr):
    best, bestd = None, None
    for f in glob.glob(os.path.join(seeds_dir, '*')):
        s = open(f, 'rb').read()
        if len(s) != len(data):
            continue
        d = sum(1 for a, b in zip(s, data) if a != b)
        if bestd is None or d < bestd:
            best, bestd = s, d
    return best, bestd


def minimise(target, path, want_label, seeds_dir, env, hdr, budget_s=90):
    """seed-delta reduction: revert every byte that differs from the nearest same-length seed when the
    same label still fires.  Returns path of the minimised file (may be the original)."""
    data = bytearray(open(path, 'rb').read())
    seed, d = nearest_seed(bytes(data), seeds_dir, hdr)
    if seed is None or d == 0 or d > 4000:
        return path
    t0 = time.time()
    diffs = [i for i in range(len(data)) if data[i] != seed[i]]
    tmp = path + '.min'
    # ddmin-lite: try reverting chunks of the difference set (halving the chunk size down to single bytes)
    chunk = max(1, len(diffs) // 2)
    while time.time() - t0 < budget_s:
        i = 0
        while i < len(diffs) and time.time() - t0 < budget_s:
            trial = bytearray(data)
            for j in diffs[i:i + chunk]:
                trial[j] = seed[j]
            open(tmp, 'wb').write(trial)
            rc, out = run_once(target, tmp, env, 60)
            p, l = label_of(out)
            if l == want_label[1] and p == want_label[0]:
                data = trial
                del diffs[i:i + chunk]
            else:
                i += chunk
        if chunk == 1:
            break
        chunk = max(1, chunk // 2)
    open(tmp, 'wb').write(data)
    return tmp


def campaign(prop, target, seeds, seconds, workers, seed, report=None, ignore=None, hdr=64, max_len=200000, extra_seed_dirs=()):
    """Runs the campaign; returns dict(stats, samples, violations=[{prop,label,replay,detail}], notes)."""
    # one directory per run (two runs of the same check may overlap, e.g. a quick run during a thorough one); stale ones are swept
    for old in glob.glob(os.path.join(WORK, prop, 'fz_' + target + '*')):
        pid = old.rsplit('_', 1)[-1]
        if not (pid.isdigit() and os.path.exists('/proc/' + pid)):
            shutil.rmtree(old, ignore_errors=True)
    wd = os.path.join(WORK, prop, 'fz_%s_%d' % (target, os.getpid()))
    shutil.rmtree(wd, ignore_errors=True)
    os.makedirs(os.path.join(wd, 'corpus'))
    os.makedirs(os.path.join(wd, 'art'))
    stats_path = os.path.join(wd, 'stats.jsonl')
    env = env_for(stats_path, report, ignore)
    exe = os.path.join(BUILD, 'asan-direct', target)
    cmd = [exe, '-fork=%d' % workers, '-ignore_crashes=1', '-ignore_timeouts=1', '-ignore_ooms=1', '-max_total_time=%d' % seconds, '-seed=%d' % (seed or 1),
           '-entropic=0', '-max_len=%d' % max_len, '-timeout=25', '-rss_limit_mb=3000', '-artifact_prefix=' + os.path.join(wd, 'art') + '/',
           os.path.join(wd, 'corpus'), seeds] + list(extra_seed_dirs)
    t0 = time.time()
    log = open(os.path.join(wd, 'log'), 'wb')
    try:
        subprocess.run(cmd, stdout=log, stderr=subprocess.STDOUT, env=env, timeout=seconds + 300, cwd=wd)
    except subprocess.TimeoutExpired:
        pass
    log.close()
    stats, samples, nt = merge_stats(stats_path)
    notes = []
    viols = []
    seen = set()
    arts = sorted(glob.glob(os.path.join(wd, 'art', 'crash-*')) + glob.glob(os.path.join(wd, 'art', 'leak-*')))
    stats['artifacts'] = len(arts)
    noise = len(glob.glob(os.path.join(wd, 'art', 'timeout-*'))) + len(glob.glob(os.path.join(wd, 'art', 'oom-*'))) + len(glob.glob(os.path.join(wd, 'art', 'slow-unit-*')))
    stats['load_noise_artifacts'] = noise
    renv = env_for(os.path.join(wd, 'replay-stats.jsonl'), report, ignore)
    for a in arts[:200]:
        if os.path.getsize(a) == 0:
            continue
        rc, out = run_once(target, a, renv)
        p, l = label_of(out)
        if l is None:
            continue
        if p == 'HARNESS':
            notes.append('HARNESS-BUG ' + l)
            continue
        p = p or prop_for_sanitizer(target)
        if (p, l) in seen:
            continue
        # confirm: 3/3 replays
        ok = 1
        for _ in range(2):
            rc2, out2 = run_once(target, a, renv)
            p2, l2 = label_of(out2)
            if l2 == l:
                ok += 1
        if ok < 3:
            notes.append('FLAKY-NOT-REPORTED %s (%d/3)' % (l, ok))
            continue
        seen.add((p, l))
        mp = minimise(target, a, (p if 'sanitizer' not in l else None, l), seeds, renv, hdr)
        os.makedirs(os.path.join(REPLAY_OUT, prop), exist_ok=True)
        dst = os.path.join(REPLAY_OUT, prop, '%s-%s.bin' % (target, hashlib.sha1(l.encode()).hexdigest()[:10]))
        shutil.copyfile(mp, dst)
        viols.append(dict(prop=p, label=l, replay=dst, detail=out[-1500:]))
    return dict(stats=stats, samples=samples, nontrivial=nt, violations=viols, notes=notes, wall=time.time() - t0)


def prop_for_sanitizer(target):
    return {'fz_face': 'C01', 'fz_shape': 'C02', 'fz_lz4': 'C14'}.get(target, 'C01')


def replay_bin(prop, target, path, report=None, ignore=None):
    """Replay of a saved fuzz input: returns (prop, label) if it violates, else None."""
    env = env_for('/dev/null', report, ignore)
    rc, out = run_once(target, path, env)
    p, l = label_of(out)
    if l is None:
        return None
    return (p or prop_for_sanitizer(target), l)
