"""Reference semantics of GDL-lite programs (the C06 oracle).  Written from doc/GTF.adoc ("Pass Contents"),
doc/OpCodes.adoc and GDL's rule semantics; shares no code with /repo/src and none with the compiler in
fontsynth.py beyond the spec dictionary both consume.

Semantics implemented (and the regime restrictions that make them unambiguous are enforced by the
generator in props/c06.py, not here):
 * a pass walks the stream; at the cursor it needs `pre` preceding slots, else the slot passes through;
 * candidates = rules whose class sequence matches the slots starting `pre` before the cursor; they are
   tried by precedence (longer rule first, then earlier rule); the first whose constraint holds for every
   matched slot fires; otherwise the cursor advances by one;
 * a fired rule rewrites its body: per item keep / put_glyph / put_subs / put_copy / delete / insert,
   associations, attribute assignments; all reads refer to the *input* of the rule;
 * the cursor resumes after the last body item, moved by the rule's adjustment;
 * passes run in order; the stream is kept in font direction while they run.
Positioning: bases advance the pen; an attached slot sits at parent origin + attach.at - attach.with + shift.
"""

M32 = 0xFFFFFFFF


def s32(x):
    x &= M32
    return x - 0x100000000 if x & 0x80000000 else x


class Slot:
    __slots__ = ('gid', 'before', 'after', 'orig', 'user', 'advx', 'advy', 'shiftx', 'shifty', 'attx', 'atty', 'withx', 'withy',
                 'parent', 'children', 'brk', 'ins', 'ox', 'oy')

    def __init__(self, gid, ch, nuser, adv):
        self.gid = gid
        self.before = self.after = self.orig = ch
        self.user = [0] * nuser
        self.advx, self.advy = adv, 0
        self.shiftx = self.shifty = 0
        self.attx = self.atty = self.withx = self.withy = 0
        self.parent = None
        self.children = []
        self.ins = 1
        self.ox = self.oy = 0.0

    def clone(self):
        s = Slot(self.gid, self.orig, len(self.user), self.advx)
        for k in ('before', 'after', 'orig', 'advx', 'advy', 'shiftx', 'shifty', 'attx', 'atty', 'withx', 'withy', 'ins'):
            setattr(s, k, getattr(self, k))
        s.user = list(self.user)
        return s


class Died(Exception):
    pass


class Model:
    def __init__(self, spec):
        self.spec = spec
        self.glyphs = spec['glyphs']
        self.n = len(self.glyphs)
        self.cmap = {int(k): v for k, v in spec['cmap'].items()}
        self.cmap12 = {int(k): v for k, v in (spec.get('cmap12') or {}).items()}
        self.pseudos = {u: g for u, g in spec.get('pseudos', [])}
        self.classes = spec['classes']
        self.nuser = spec.get('nuser', 4)
        self.fontdir = spec.get('dir', 0)
        self.feat_defaults = []
        for f in spec.get('feats', []):
            self.feat_defaults.append(f['settings'][0][0] & 0xFFFF if f['settings'] else 0)

    # ---- helpers -----------------------------------------------------------------------------
    def gattr(self, gid, aid):
        if gid >= self.n:
            return 0
        return self.glyphs[gid].get('attrs', {}).get(str(aid), 0)

    def adv_of(self, gid):
        return self.glyphs[gid]['adv'] if gid < self.n else 0

    def lookup(self, cp):
        g = self.cmap12.get(cp, 0) if cp > 0xFFFF else self.cmap.get(cp, 0)
        if not g:
            g = self.pseudos.get(cp, 0)
        return g

    def ev(self, e, slots, cur, feats):
        """evaluate an Expr with slot refs relative to index `cur` of list `slots` (input view of the rule)"""
        k = e[0]
        if k == 'lit':
            return s32(e[1])
        if k == 'gattr':
            return s32(self.gattr(slots[cur + e[2]].gid, e[1]))
        if k == 'user':
            return s32(slots[cur + e[2]].user[e[1]])
        if k == 'feat':
            return s32(feats[e[1]]) if e[1] < len(feats) else 0
        if k == 'sattr':
            s = slots[cur + e[2]]
            return s32({0: s.advx, 1: s.advy, 20: s.shiftx, 21: s.shifty, 3: s.attx, 4: s.atty, 8: s.withx, 9: s.withy}[e[1]])
        if k == 'not':
            return 0 if self.ev(e[1], slots, cur, feats) else 1
        if k == 'neg':
            return s32(-self.ev(e[1], slots, cur, feats))
        if k == 'cond':
            c = self.ev(e[1], slots, cur, feats)
            t = self.ev(e[2], slots, cur, feats)
            f = self.ev(e[3], slots, cur, feats)
            return t if c else f
        if k == 'bin':
            a = self.ev(e[2], slots, cur, feats)
            b = self.ev(e[3], slots, cur, feats)
            op = e[1]
            if op == 'add': return s32(a + b)
            if op == 'sub': return s32(a - b)
            if op == 'mul': return s32(a * b)
            if op == 'and': return 1 if (a and b) else 0
            if op == 'or': return 1 if (a or b) else 0
            if op == 'eq': return 1 if a == b else 0
            if op == 'ne': return 1 if a != b else 0
            if op == 'lt': return 1 if a < b else 0
            if op == 'gt': return 1 if a > b else 0
            if op == 'le': return 1 if a <= b else 0
            if op == 'ge': return 1 if a >= b else 0
            if op == 'min': return min(a, b)
            if op == 'max': return max(a, b)
            if op == 'bitor': return s32((a & M32) | (b & M32))
            if op == 'bitand': return s32((a & M32) & (b & M32))
            if op == 'div':
                if b == 0 or (a == -0x80000000 and b == -1):
                    raise Died()
                q = abs(a) // abs(b)
                return s32(q if (a < 0) == (b < 0) else -q)
        raise ValueError('bad expr %r' % (e,))

    # ---- rule application ----------------------------------------------------------------------
    def constraint_ok(self, rule, window, pre, feats):
        c = rule.get('constraint')
        if not c:
            return True
        # the constraint is evaluated once per matched slot; global terms see that slot as "current"
        for j in range(len(window)):
            ok = 1
            if c.get('global'):
                ok = self.ev(c['global'], window, j, feats)
            if ok and str(j - pre) in c.get('items', {}):
                ok = self.ev(c['items'][str(j - pre)], window, j, feats)
            if not ok:
                return False
        return True

    def set_attr(self, s, kind, arg, val, window, pre):
        v16 = ((val + 0x8000) & 0xFFFF) - 0x8000          # slot attributes are int16 in the setter
        if kind == 'advx': s.advx = v16
        elif kind == 'advy': s.advy = v16
        elif kind == 'shiftx': s.shiftx = v16
        elif kind == 'shifty': s.shifty = v16
        elif kind == 'attx': s.attx = v16
        elif kind == 'atty': s.atty = v16
        elif kind == 'withx': s.withx = v16
        elif kind == 'withy': s.withy = v16
        elif kind == 'user': s.user[arg] = v16
        elif kind == 'insert': s.ins = 1 if v16 else 0
        else:
            raise ValueError(kind)

    def fire(self, rule, stream, start, pre, feats, live):
        """stream[start : start+len(items)] matched.  Returns the list of output slots replacing the body.
        Reads (`ref`s, expressions) see the rule's *input*; writes go to the output slots."""
        L = len(rule['items'])
        window = stream[start:start + L]
        inputs = [w.clone() for w in window]                # frozen input state for reads
        body_in = window[pre:]
        out = []
        inpos = 0                                           # input body items consumed
        outmap = {}                                         # input body index -> output slot
        pending_attach = []
        for it in rule['actions']:
            ins = bool(it.get('insert'))
            op = it.get('op', 'keep')
            if ins:
                s = Slot(0, 0, self.nuser, 0)
                s.before = s.after = s.orig = None          # set by assoc (the generator always gives one)
            else:
                if inpos >= len(body_in):
                    raise ValueError('action consumes more items than the rule has')
                s = body_in[inpos]
            if op == 'delete':
                inpos += 1
                continue
            if op == 'glyph':
                s.gid = self.classes[it['cls']][0]
                s.advx = self.adv_of(s.gid)
            elif op == 'subs':
                src = inputs[pre + it['ref']]
                cin = self.classes[it['in']]
                cout = self.classes[it['out']]
                idx = cin.index(src.gid) if src.gid in cin else -1
                g = cout[idx] if 0 <= idx < len(cout) else 0
                s.gid = g
                s.advx = self.adv_of(g)
            elif op == 'copy':
                src = inputs[pre + it['ref']]
                for k in ('gid', 'before', 'after', 'orig', 'advx', 'advy', 'shiftx', 'shifty', 'attx', 'atty', 'withx', 'withy', 'ins'):
                    setattr(s, k, getattr(src, k))
                s.user = list(src.user)
            if it.get('assoc'):
                refs = [inputs[pre + r] for r in it['assoc']]
                s.before = min(r.before for r in refs)
                s.after = max(r.after for r in refs)
            for kind, arg, ex in it.get('attrs', []):
                if kind == 'attach':
                    pending_attach.append((s, arg))
                    continue
                # expression refs are relative to the current input item (for an inserted item: the input
                # item it is inserted before)
                val = self.ev(ex, inputs, pre + inpos, feats)
                self.set_attr(s, kind, arg, val, window, pre)
            out.append(s)
            if not ins:
                outmap[inpos] = s
                inpos += 1
        for s, target in pending_attach:
            t = outmap.get(target)
            if t is None and target < 0 and pre + target >= 0:
                t = window[pre + target]
            if t is None or t is s:
                continue
            self.attach(s, t)
        return out

    def attach(self, s, t):
        if t is s or t is s.parent:
            return
        # refuse cycles: t must not be a descendant of s
        p = t
        while p is not None:
            if p is s:
                return
            p = p.parent
        if s.parent is not None:
            s.parent.children.remove(s)
        s.parent = t
        t.children.append(s)

    def run_pass(self, p, stream, feats, positioning):
        pre = p.get('pre', 0)
        rules = p['rules']
        order = sorted(range(len(rules)), key=lambda i: (-len(rules[i]['items']), i))
        csets = [[set(self.classes[c]) for c in r['items']] for r in rules]
        cur = 0
        fired = 0
        events = []
        while cur < len(stream):
            applied = False
            if cur >= pre:
                start = cur - pre
                matched = [ri for ri in order
                           if start + len(csets[ri]) <= len(stream) and all(stream[start + k].gid in csets[ri][k] for k in range(len(csets[ri])))]
                nfailed = 0
                for mi, ri in enumerate(matched):
                    window = stream[start:start + len(csets[ri])]
                    if self.constraint_ok(rules[ri], window, pre, feats):
                        r = rules[ri]
                        L = len(csets[ri])
                        # how was precedence decided against the other candidates?
                        how = set()
                        for oj in matched[mi + 1:]:
                            how.add('sortkey' if len(csets[oj]) < L else 'ruleorder')
                        if nfailed:
                            how.add('failed_constraint')
                        if cur < pre + 1 and pre:
                            how.add('near_start')
                        spans_new = any(getattr(w, 'fresh', False) for w in window)
                        out = self.fire(r, stream, start, pre, feats, None)
                        stream[cur:start + L] = out
                        newcur = cur + len(out) + r.get('adjust', 0)
                        events.append(dict(rule=ri, ncand=len(matched), how=sorted(how)))
                        fired += 1
                        cur = max(newcur, 0)
                        applied = True
                        break
                    nfailed += 1
                if not applied and matched:
                    events.append(dict(rule=-1, ncand=len(matched), how=['all_constraints_failed']))
            elif pre:
                events.append(dict(rule=-2, ncand=0, how=['precontext_shortage']))
            if not applied:
                cur += 1
        return fired, events

    # ---- whole shaping --------------------------------------------------------------------------
    def shape(self, text, dir=0, featvals=None):
        """text: list of scalars.  Returns dict(stream=[...] in output order, events=...)"""
        feats = list(featvals) if featvals is not None else list(self.feat_defaults)
        stream = []
        for i, cp in enumerate(text):
            g = self.lookup(cp)
            stream.append(Slot(g, i, self.nuser, self.adv_of(g)))
        textdir = dir & 1
        if textdir != self.fontdir:
            stream.reverse()
        nsub = self.spec.get('nsubst', len(self.spec['passes']))
        allev = []
        total_fired = 0
        for pi, p in enumerate(self.spec['passes']):
            if p.get('reverse'):
                stream.reverse()
            fired, ev = self.run_pass(p, stream, feats, pi >= nsub)
            if p.get('reverse'):
                stream.reverse()
            total_fired += fired
            allev.append(ev)
        # positions (design units): pen runs in visual order; RTL fonts place the last slot first
        order = list(stream) if not self.fontdir else list(reversed(stream))
        pen, peny = 0.0, 0.0
        for s in order:
            if s.parent is None:
                self.place(s, pen, peny)
                pen = pen + s.advx
                peny = peny + s.advy
        adv = pen
        if textdir != self.fontdir:
            stream.reverse()
        return dict(stream=stream, advance=adv, advance_y=peny, events=allev, fired=total_fired)

    def place(self, s, bx, by):
        sx = -s.shiftx if self.fontdir else s.shiftx
        if s.parent is None:
            s.ox, s.oy = bx + sx, by + s.shifty
        else:
            s.ox = bx + sx + (s.attx - s.withx)
            s.oy = by + s.shifty + (s.atty - s.withy)
        for c in s.children:
            self.place(c, s.ox, s.oy)
