"""Real-language lines for the shipped fonts: the texts the repository's own comparison tests pair with each font
(tests/CMakeLists.txt cmptest lines).  Random sequences over a font's cmap fire many rules but almost never the
*coherent* contexts a script's rules are written for (a Nastaliq word whose kern/collision rules set an exclusion glyph, a
Burmese kinzi); these lines do.  Read-only inputs, deterministic order."""
import os
from paths import REPO

PAIRS = {
    'Padauk.ttf': (['my_HeadwordSyllables.txt'], 0),
    'charis_r_gr.ttf': (['udhr_eng.txt', 'udhr_yor.txt'], 0),
    'charis_fast.ttf': (['udhr_eng.txt', 'udhr_yor.txt'], 0),
    'Charis5_eursub.ttf': (['udhr_eng.txt'], 0),
    'Annapurnarc2.ttf': (['udhr_nep.txt', 'udhr_hin.txt'], 0),
    'Scheherazadegr.ttf': (['udhr_arb.txt'], 1),
    'Awami_test.ttf': (['awami_tests.txt'], 1),
    'Awami_test.ttf#nosub': (['awami_tests.txt'], 1),
    'AwamiNastaliq-Regular.ttf': (['awami_tests.txt'], 1),
    'Awami_compressed_test.ttf': (['awami_tests.txt'], 1),
}
_cache = {}


def lines(font, cap=120):
    """[(line number, [code points])] for the font's paired text files; lines cut to `cap` characters at a space where possible."""
    if font in _cache:
        return _cache[font]
    out = []
    for fn in PAIRS.get(font, ([], 0))[0]:
        p = os.path.join(REPO, 'tests', 'texts', fn)
        if not os.path.exists(p):
            continue
        for i, ln in enumerate(open(p, encoding='utf-8', errors='replace').read().split('\n')):
            ln = ln.strip('\r\n﻿')
            if not ln.strip():
                continue
            if len(ln) > cap:
                cut = ln.rfind(' ', cap // 2, cap)
                ln = ln[:cut if cut > 0 else cap]
            out.append(('%s:%d' % (fn, i + 1), [ord(c) for c in ln if ord(c)]))
    _cache[font] = out
    return out


def natural_dir(font):
    return PAIRS.get(font, ([], 0))[1]


def sample(font, limit):
    """deterministic stride sample of at most `limit` lines"""
    ls = lines(font)
    if len(ls) <= limit:
        return ls
    step = len(ls) / float(limit)
    return [ls[int(i * step)] for i in range(limit)]
