"""Deterministic "very long text" class for C02..C05: segments of more than 65 536 characters / slots / code units.

Counters, indices and offsets inside the engine are 32-bit or size_t; a change that narrows one of them to 16 bits (slot index,
char-info base offset, ...) shows only beyond 65 535.  Shaping 70 000 characters of a non-collision font takes about 1.5 s under
ASan including every invariant, so each run does a handful of them: fonts x encodings x directions, fixed repeating texts that
make rules fire (Burmese clusters, Latin with combining marks, Arabic)."""
import time
from concurrent.futures import ThreadPoolExecutor
import framework as fw
from framework import Violation, Inconclusive
from driver import Driver

N = 70000
TEXTS = {
    'Padauk.ttf': [0x1000, 0x1031, 0x102C, 0x1000, 0x103C, 0x20, 0x1004, 0x103A, 0x1039, 0x1000],
    'charis_r_gr.ttf': [0x61, 0x301, 0x62, 0x20, 0x63, 0x66, 0x69],
    'Scheherazadegr.ttf': [0x628, 0x64E, 0x644, 0x627, 0x20, 0x645],
}


def cases(tier):
    fonts_ = ['Padauk.ttf', 'Scheherazadegr.ttf'] if tier == 'quick' else list(TEXTS)
    out = []
    for f in fonts_:
        for enc in ((1, 4) if tier == 'quick' else (1, 2, 4)):
            for d in ((0,) if tier == 'quick' else (0, 1)):
                out.append(dict(kind='shipped', font=f, text=(TEXTS[f] * (N // len(TEXTS[f]) + 1))[:N], dir=d, enc=enc, ppm=0.0, check_gid=True, huge=True))
    return out


def run(ctx, prop, tier, workers, judge, replay_fn):
    """judge(drv, case, prop) -> (response, other labels).  Returns a merge()-able dict."""
    m = fw.merge([])

    def one(case):
        drv = Driver(timeout=240)
        try:
            try:
                r, other = judge(drv, dict(case, confirm_hang=True), prop)     # confirm_hang: long watchdog, no hang candidate
                return case, r, other, None
            except Violation as v:
                return case, None, [], v
            except Inconclusive:
                return case, None, [], None
        finally:
            drv.kill()

    with ThreadPoolExecutor(max_workers=min(workers, 6)) as ex:
        results = list(ex.map(one, cases(tier)))
    for case, r, other, v in results:
        if v is not None:
            short = dict(case, text=case['text'][:len(TEXTS[case['font']])], repeat_to=N)
            if v.label == 'does-not-return':
                m['inconclusive'] += 1          # a wall-clock verdict on a 70 000 character text is never a violation
                continue
            ctx.report(Violation(v.label, short, v.detail), replay_fn)
            continue
        if r is None:
            m['inconclusive'] += 1
            continue
        m['evaluations'] += 1
        m['classes']['huge_text_segments_over_65535_slots'] = m['classes'].get('huge_text_segments_over_65535_slots', 0) + (r.get('st', {}).get('n', 0) > 65535)
        for o in other:
            m['other'][o] = m['other'].get(o, 0) + 1
    m['samples'].append(dict(engine='huge-text', font='Padauk.ttf', characters=N, unit_text=TEXTS['Padauk.ttf'], encodings=[1, 4]))
    return m
