"""C18  Feature values are an isolated, range-checked map with font defaults.

Hypothesis generates Feat (v1/v2; 1..64, sometimes 256 features; 0..12 settings; max values chosen so that bit widths
1..16 and 32 pack across 32-bit word boundaries; hidden flag) + Sill (languages with zero-padded tags, overrides incl.
out-of-range values and unknown feature ids) + name tables (labels in several languages, BMP and astral), and a
history of feature-value operations (for_lang with zero/space padded tags, clone, set, get, destroy, label queries)
executed through grdrv's history command on one face.  Oracle: a dictionary model (featmodel below)."""
import os, sys, json, time, struct, glob
import framework as fw
from framework import Violation, Inconclusive
from driver import Driver, DriverCrash, DriverHang, blob
import fontsynth, fonts
from fonts import report_payload

PROP = 'C18'
VARIANTS = ['asan-direct']
RULE = ('Hypothesis: synthesised Feat/Sill/name tables (see module docstring) and the shipped fonts; histories of 1..40 operations over up to 6 live feature-value objects (from for_lang, clone, or gr_featureval_clone(NULL) = unbound, all zeros until a set binds it). '
        'Oracle: per-object dict; set succeeds iff v <= largest setting value (any uint16 if the feature has no settings); after success get == v and every other feature unchanged, '
        'after failure nothing changed; for_lang = defaults overridden by in-range Sill entries of known features, same for space- and zero-padded tags, defaults for unknown tags; '
        'clone == source; labels = name-table strings (exact language record if present), equal across encodings after transcoding, NUL-terminated, length consistent. '
        'Non-trivial: >= 2 features share a 32-bit word and a set on one was followed by a get of the other. Distinct by case JSON.')
ASSUME = ['feature id 1 (engine convention: language id) is never generated; <= 256 features', 'label language fallback is only checked where an exact (name id, language) record exists',
          'name tables start with a family-name record, as real fonts do (record 0 is never a feature label)']

HIDDEN = 0x0800


def bits_for(maxv):
    return maxv.bit_length()


def layout(feats):
    """(word index, bit offset) per feature, mirroring the *documented* rule: no feature straddles a 32-bit word"""
    out, off = [], 0
    for f in feats:
        need = 32 if not f['settings'] else bits_for(max(s[0] & 0xFFFF for s in f['settings']))
        if (off + need) // 32 > off // 32:
            off = ((off + need) // 32) * 32
        out.append((off // 32, off % 32, need))
        off += need
    return out


def feat_strategy():
    from hypothesis import strategies as st

    @st.composite
    def gen(draw):
        nf = draw(st.integers(1, 12)) if draw(st.integers(0, 3)) else draw(st.sampled_from([33, 64, 256]))
        feats, ids = [], set()
        for i in range(nf):
            fid = draw(st.one_of(st.integers(2, 300), st.sampled_from([0x6C696761, 0x61620000, 0x61000000, 0x61626300, 0x7FFFFFFF, 0xFFFFFFFE, 0x20202041]))) if nf <= 64 else 1000 + i
            if fid in ids or fid == 1:
                fid = 5000 + i
            ids.add(fid)
            k = draw(st.integers(0, 9))
            if k == 0:
                settings = []
            else:
                ns = draw(st.integers(1, 12)) if nf <= 64 else draw(st.integers(1, 2))
                top = draw(st.sampled_from([1, 1, 2, 3, 7, 8, 15, 16, 255, 256, 1023, 0x7FFF, 0x8000, 0xFFFF]))
                ns = min(ns, top + 1)
                vals = draw(st.lists(st.integers(0, top), min_size=ns, max_size=ns, unique=True))
                if draw(st.booleans()) and top not in vals:
                    vals[draw(st.integers(0, ns - 1))] = top
                settings = [[v, 300 + 20 * (i % 40) + j] for j, v in enumerate(vals)]
            feats.append(dict(id=fid, settings=settings, flags=HIDDEN if draw(st.integers(0, 7)) == 0 else 0, name=256 + (i % 40)))
        nl = draw(st.integers(0, 8))
        langs, tags = [], set()
        for _ in range(nl):
            tag = draw(st.sampled_from([0x656E0000, 0x64650000, 0x66720000, 0x61000000, 0x61626300, 0x61626364, 0x7A7A7A00, 0x4D594D00]))
            if tag in tags:
                continue
            tags.add(tag)
            sets = []
            for _ in range(draw(st.integers(0, 6))):
                f = draw(st.sampled_from(feats))
                fid = f['id'] if draw(st.integers(0, 5)) else draw(st.sampled_from([0x12345678, 7777]))
                mx = max([s[0] for s in f['settings']]) if f['settings'] else 0xFFFF
                v = draw(st.sampled_from([0, 1, mx, mx + 1, 0xFFFF])) if draw(st.booleans()) else (draw(st.sampled_from(f['settings']))[0] if f['settings'] else draw(st.integers(0, 0xFFFF)))
                sets.append([fid, v & 0xFFFF])
            langs.append(dict(tag=tag, settings=sets))
        names = [[3, 1, 0x0409, 1, 'Synth']]
        strs = ['Lig', 'Ünï', 'ßtyle', 'ab\U0001F600c', 'x', '', 'Ω≈ç√', '\U00010000\U0010FFFF']
        used = set()
        for i, f in enumerate(feats[:40]):
            for lang in draw(st.lists(st.sampled_from([0x0409, 0x0407, 0x040C, 0x0809, 0x0C0A]), min_size=0, max_size=3, unique=True)):
                if (f['name'], lang) not in used:
                    used.add((f['name'], lang))
                    names.append([3, 1, lang, f['name'], draw(st.sampled_from(strs)) + str(i)])
            for j, s in enumerate(f['settings'][:4]):
                if draw(st.booleans()) and (s[1], 0x0409) not in used:
                    used.add((s[1], 0x0409))
                    names.append([3, 1, 0x0409, s[1], draw(st.sampled_from(strs)) + 'v' + str(j)])
        return dict(feats=feats, langs=langs, names=names, feat_version=draw(st.sampled_from([1, 2, 2])) if all(f['id'] < 0x10000 for f in feats) else 2)
    return gen()


def spec_of(fspec):
    return dict(glyphs=[dict(adv=500, bbox=[0, 0, 400, 600], attrs={}) for _ in range(3)], cmap={'97': 1, '98': 2}, classes=[[1], [2]], ngattr=8,
                passes=[dict(pre=0, maxloop=2, rules=[dict(items=[1], actions=[dict(op='keep')])])], feats=fspec['feats'], langs=fspec['langs'], names=fspec['names'],
                feat_version=fspec.get('feat_version', 2))


class Model:
    def __init__(self, fspec):
        self.feats = fspec['feats']
        self.visible = [i for i, f in enumerate(self.feats) if not (f.get('flags', 0) & HIDDEN)]
        self.maxv = [max(s[0] & 0xFFFF for s in f['settings']) if f['settings'] else None for f in self.feats]
        self.defaults = [(f['settings'][0][0] & 0xFFFF) if f['settings'] else 0 for f in self.feats]
        self.langs = {}
        byid = {}
        for i, f in enumerate(self.feats):
            byid.setdefault(f['id'], i)
        for l in fspec['langs']:
            if l['tag'] in self.langs:
                continue
            v = list(self.defaults)
            for fid, val in l['settings']:
                i = byid.get(fid)
                if i is not None and (self.maxv[i] is None or val <= self.maxv[i]):
                    v[i] = val
            self.langs[l['tag']] = v
        self.names = {}
        for p, e, lang, nid, text in fspec['names']:
            if p == 3 and e == 1:
                self.names[(nid, lang)] = text

    @staticmethod
    def zeropad(tag):
        if tag == 0x20202020: return 0
        if tag & 0x00FFFFFF == 0x00202020: return tag & 0xFF000000
        if tag & 0x0000FFFF == 0x00002020: return tag & 0xFFFF0000
        if tag & 0x000000FF == 0x00000020: return tag & 0xFFFFFF00
        return tag

    def for_lang(self, tag):
        return list(self.langs.get(self.zeropad(tag), self.defaults))

    def set(self, vals, vis_idx, v):
        i = self.visible[vis_idx]
        if self.maxv[i] is not None and v > self.maxv[i]:
            return False
        vals[i] = v
        return True

    def visible_vals(self, vals):
        return [vals[i] for i in self.visible]


def utf16_units(text):
    b = text.encode('utf-16-be', 'surrogatepass')
    return list(struct.unpack('>%dH' % (len(b) // 2), b))


def transcode(units16, enc):
    s = b''.join(struct.pack('>H', u) for u in units16).decode('utf-16-be')
    if enc == 2: return units16
    if enc == 4: return [ord(c) for c in s]
    return list(s.encode('utf-8'))


def spacepad(tag):
    if tag == 0: return 0x20202020
    if tag & 0x00FFFFFF == 0: return tag | 0x00202020
    if tag & 0x0000FFFF == 0: return tag | 0x00002020
    if tag & 0x000000FF == 0: return tag | 0x00000020
    return tag


def build_ops(case, model):
    """-> (payload bytes, list of expectations aligned with the observations the driver emits)"""
    ops = b''
    exp = []
    objs = []           # model values per fv slot (None after destroy)
    shares = layout(model.feats)
    touched_pair = False
    n = 0
    last_set = None
    for op in case['ops']:
        k = op[0]
        if k == 'langsel':
            # a language of this very font (zero- or space-padded), so that its Sill overrides are actually read back
            cands = [0x12345678]
            for t in model.langs:
                cands += [t, spacepad(t)]
            op = ['lang', cands[op[1] % len(cands)]]
            k = 'lang'
        if k == 'lang':
            ops += bytes([5]) + struct.pack('<I', op[1]); objs.append(model.for_lang(op[1])); n += 1
        elif k == 'null':
            # gr_featureval_clone(NULL): an unbound, empty set -- every feature reads 0 until a successful set binds and grows it
            ops += bytes([6]) + struct.pack('<H', 0xFFFF); objs.append([0] * len(model.feats)); n += 1
        elif k == 'clone':
            if not objs: continue
            i = op[1] % len(objs)
            if objs[i] is None: continue          # never clone a destroyed object
            ops += bytes([6]) + struct.pack('<H', i); objs.append(list(objs[i])); n += 1
        elif k == 'set':
            if not objs or not model.visible: continue
            i = op[1] % len(objs)
            if objs[i] is None: continue
            fi = op[2] % len(model.visible)
            ops += bytes([7]) + struct.pack('<HHH', i, fi, op[3]); n += 1
            ok = model.set(objs[i], fi, op[3])
            exp.append(('set', ok, dict(obj=i, feat=fi, val=op[3])))
            last_set = (i, model.visible[fi])
        elif k == 'get':
            if not objs: continue
            i = op[1] % len(objs)
            if objs[i] is None: continue
            ops += bytes([9]) + struct.pack('<H', i); n += 1
            exp.append(('get', model.visible_vals(objs[i]), dict(obj=i)))
            if last_set and last_set[0] == i:
                w = shares[last_set[1]][0]
                if any(shares[j][0] == w for j in model.visible if j != last_set[1]):
                    touched_pair = True
        elif k == 'destroy':
            if not objs: continue
            i = op[1] % len(objs)
            if objs[i] is None: continue
            ops += bytes([8]) + struct.pack('<H', i); objs[i] = None; n += 1
        elif k == 'label':
            if not model.visible: continue
            fi = op[1] % len(model.visible)
            f = model.feats[model.visible[fi]]
            setting = -1 if op[2] < 0 or not f['settings'] else op[2] % len(f['settings'])
            ops += bytes([10]) + struct.pack('<HhHB', fi, setting, op[3], op[4]); n += 1
            nid = f['name'] if setting < 0 else f['settings'][setting][1]
            exp.append(('label', (nid, op[3], op[4]), dict(feat=fi, setting=setting)))
        elif k == 'find':
            ops += bytes([13]) + struct.pack('<I', op[1]); n += 1
            exp.append(('find', op[1], {}))
    return struct.pack('<H', n) + ops, exp, touched_pair


def judge(case, drv):
    fspec = case['fspec']
    try:
        font = fontsynth.build_font(spec_of(fspec))
    except (ValueError, struct.error, OverflowError):
        raise Inconclusive()
    model = Model(fspec)
    fid = drv.put_font(font)
    payload, exp, pair = build_ops(case, model)
    req = b'H' + struct.pack('<IBB', fid, 0, case.get('opts', 0)) + payload
    try:
        r = drv.call(req, timeout=60)
    except DriverCrash as e:
        raise Violation('sanitizer:' + e.kind + ':' + e.summary, case, e.stderr[-1500:])
    except DriverHang:
        raise Inconclusive()
    if 'error' in r:
        raise fw.Inconclusive()
    if not r.get('face'):
        return None, False, ['rejected']      # C18 quantifies over faces; whether a font loads is C01's business (e.g. the loader wants 16 bytes per v1 feature record)
    obs = r['obs']
    if len(obs) != len(exp):
        raise Inconclusive()
    byid = {}
    for vi, i in enumerate(model.visible):
        byid.setdefault(model.feats[i]['id'], vi)
    allids = {}
    for i, f in enumerate(model.feats):
        allids.setdefault(f['id'], i)
    for (kind, want, info), got in zip(exp, obs):
        if kind == 'set':
            if bool(got['ok'] == 1) != want:
                raise Violation('set-feature-value-success-differs-from-range-rule', case, '%s engine ok=%s model ok=%s' % (info, got['ok'], want))
        elif kind == 'get':
            if got != want:
                diff = [(k, a, b) for k, (a, b) in enumerate(zip(got, want)) if a != b]
                raise Violation('feature-values-differ-from-model', case, '%s first diffs (visible index, engine, model)=%s' % (info, diff[:4]))
        elif kind == 'find':
            tag = Model.zeropad(want)
            i = allids.get(tag)
            if i is None:
                if got != -2:
                    raise Violation('find_fref-found-unknown-id', case, hex(want))
            else:
                vis = model.visible.index(i) if i in model.visible else -1
                if got != vis:
                    raise Violation('find_fref-wrong-feature', case, '%s engine=%d model=%d' % (hex(want), got, vis))
        elif kind == 'label':
            nid, lang, enc = want
            exact = model.names.get((nid, lang))
            cands = {l: t for (n_, l), t in model.names.items() if n_ == nid}
            if got is None or got.get('l') is None:
                if exact is not None:
                    raise Violation('label-missing-although-name-record-exists', case, '%s nameid=%d lang=%#x' % (info, nid, lang))
                continue
            lab = got['l']
            if not lab['nul']:
                raise Violation('label-not-NUL-terminated', case, str(info))
            if lab['len'] != len(lab['units']):
                raise Inconclusive()
            rl = got['lang']
            if rl not in cands:
                raise Violation('label-from-a-language-the-name-table-lacks', case, '%s returned lang=%#x' % (info, rl))
            if exact is not None and rl != lang:
                raise Violation('label-not-the-exact-language-record', case, '%s asked %#x got %#x' % (info, lang, rl))
            if lab['units'] != transcode(utf16_units(cands[rl]), enc):
                raise Violation('label-text-differs-from-name-table', case, '%s enc=%d engine=%s want=%s' % (info, enc, lab['units'][:12], transcode(utf16_units(cands[rl]), enc)[:12]))
    led = r.get('ledger')
    other = []
    if led and (led['out'] or led['errors']):
        other.append('C16:ledger')
    return r, pair, other


def replay_case(case):
    drv = Driver()
    try:
        judge(case, drv)
    finally:
        drv.kill()


def replay_file(path):
    d = json.load(open(path))
    try:
        replay_case(d['case'])
    except Violation as v:
        print('VIOLATION property=%s replay=%s label=%s' % (PROP, path, v.label))
        return 1
    print('replay: property held on', path)
    return 0


def ops_strategy():
    from hypothesis import strategies as st
    tags = st.sampled_from([0, 0x656E0000, 0x656E2020, 0x64650000, 0x64652020, 0x61000000, 0x61202020, 0x61626300, 0x61626320, 0x61626364, 0x7A7A7A00, 0x7A7A7A20, 0x20202020, 0x4D594D00, 0x12345678])
    vals = st.one_of(st.sampled_from([0, 1, 2, 3, 7, 8, 15, 16, 255, 256, 1023, 1024, 0x7FFF, 0x8000, 0xFFFF]), st.integers(0, 0xFFFF))
    op = st.one_of(
        st.tuples(st.just('lang'), tags).map(list),
        st.tuples(st.just('langsel'), st.integers(0, 40)).map(list),
        st.tuples(st.just('langsel'), st.integers(0, 40)).map(list),
        st.tuples(st.just('clone'), st.integers(0, 5)).map(list),
        st.just(['null']),
        st.tuples(st.just('set'), st.integers(0, 5), st.integers(0, 255), vals).map(list),
        st.tuples(st.just('set'), st.integers(0, 5), st.integers(0, 255), vals).map(list),
        st.tuples(st.just('get'), st.integers(0, 5)).map(list),
        st.tuples(st.just('get'), st.integers(0, 5)).map(list),
        st.tuples(st.just('destroy'), st.integers(0, 5)).map(list),
        st.tuples(st.just('label'), st.integers(0, 255), st.integers(-1, 6), st.sampled_from([0x0409, 0x0407, 0x040C, 0x0809, 0x0C0A, 0x0411]), st.sampled_from([1, 2, 4])).map(list),
        st.tuples(st.just('find'), st.sampled_from([0x6C696761, 0x61620000, 0x61622020, 0x61000000, 0x61202020, 0x61626300, 0x61626320, 2, 3, 5000, 0x7A7A7A7A, 0x20202041])).map(list))
    def bursts(l):
        # every other label query becomes a burst: the same label in three languages, in an order fixed by the drawn values (descending and
        # ascending language ids both occur).  A label query must not depend on the label queries before it (seed S10-C08 resumed the
        # name-record scan where the previous query for the same name id had ended).
        out = []
        for o in l:
            out.append(o)
            if o[0] == 'label' and (o[1] + o[2]) % 2 == 0:
                rot = [0x040C, 0x0409, 0x0407, 0x0809, 0x0C0A]
                k = (o[1] + o[3]) % len(rot)
                for lang in (rot[k], rot[(k + 1) % len(rot)], rot[(k + 3) % len(rot)]):
                    out.append(['label', o[1], o[2], lang, o[4]])
        return [['lang', 0]] + out
    return st.lists(op, min_size=1, max_size=40).map(bursts)


def worker(ctx):
    from hypothesis import given, strategies as st
    drv = Driver()
    rec = ctx.rec

    def make(deco):
        @deco
        @given(feat_strategy(), ops_strategy(), st.sampled_from([0, 2, 6]))
        def t(fspec, ops, opts):
            case = dict(fspec=fspec, ops=ops, opts=opts)
            r, pair, other = judge(case, drv)
            if r is None:
                rec.case(font_rejected=1)
                return
            for o in other:
                rec.other[o] = rec.other.get(o, 0) + 1
            nsets = sum(1 for o in ops if o[0] == 'set')
            rec.case(nontrivial_sig=json.dumps(case, sort_keys=True) if pair else None,
                     sample=dict(n_features=len(fspec['feats']), n_langs=len(fspec['langs']), ops=ops[:8], widths=[x[2] for x in layout(fspec['feats'])][:12]) if pair else None,
                     shared_word_set_then_get=pair, many_features=len(fspec['feats']) > 64, has_langs=bool(fspec['langs']), has_32bit_feature=any(not f['settings'] for f in fspec['feats']),
                     hidden=any(f['flags'] for f in fspec['feats']), feat_v1=fspec.get('feat_version') == 1, sets=nsets)
        return t

    ctx.run_hypothesis(make, ctx.n(12000, 300000) // ctx.nworkers + 1, replay_fn=replay_case)
    try:
        drv.stop()
    except DriverCrash as e:
        ctx.report(Violation('sanitizer-at-exit:' + e.kind + ':' + e.summary, dict(kind='exit'), e.stderr[-1500:]))


def main(tier, seed, workers):
    t0 = time.time()
    ctx = fw.Ctx(PROP, tier, seed, 0, 1, 3600)
    for f in sorted(glob.glob(os.path.join(fw.VERIF, 'replay', PROP, '*.json'))):
        try:
            replay_case(json.load(open(f))['case'])
            ctx.rec.count('replay_files_passed')
        except Violation as v:
            ctx.report(v, replay_case)
    pm = fw.run_workers('props.c18', PROP, tier, seed, workers, 50 if tier == 'quick' else 900)
    mm = fw.merge([dict(ctx.rec.dump(), error=None), dict(pm, nontrivial=sorted(pm['nontrivial']), error=None)])
    mm['errors'] = pm['errors']
    fw.write_evidence(PROP, tier, seed, 'exploration', mm, RULE, time.time() - t0, ASSUME)
    return fw.finish(PROP, mm, fw.load_known())
