"""C05  Characters and slots stay validly associated  (shared machinery: py/shapecheck.py, harness/seginv.h, harness/fz_shape.cpp)"""
import shapecheck

PROP = 'C05'
VARIANTS = ['asan-direct']
RULE = ('Generators: (a) fz_shape libFuzzer campaign (16 forked workers, table-aware mutator) over synthesised + minified shipped fonts, header bytes select face options/table source/encoding/dir 0..7/ppm/features/language/NUL-termination, text drawn from the face\'s own mapped code points plus unmapped, astral and ill-formed units; (b) Hypothesis "wild" GDL-lite programs (backward cursor, insert-heavy, attach chains and re-attachment, put_copy/assoc in positioning passes, substitution through arbitrary class pairs, division, arbitrary slot attributes, reversed passes, NSM/mirror/pseudo glyphs, unreadable glyphs, linear and bisected class tables, justification levels, line-end contextuals; for C04 half of them attachment-stress programs over a 3-4 glyph alphabet) x 1-4 probes; (c) shipped fonts x cmap-guided texts (1 in 4 with raw ill-formed code-unit fragments) x 3 encodings x dir 0..7 x font NULL / unhinted / hinted. Oracle (seginv.h + utfref.h): n_cinfo == nChars; unicode_char/base judged per char-info by an independent UTF classifier (policy independent for ill-formed text); slot before/after/original in [0,n); every character inside some slot\'s [before,after]; char-info before/after in [0,n_slots). Non-trivial: some slot has before != after or the slot count differs from the character count. Known finding KF1 (re-association in positioning passes) recognised by hook H3 and excluded. Distinct by input hash / case JSON.')
ASSUME = ['surrogate code points in UTF-8/32 tolerated either way (DESIGN N1)', 'KF1 trigger excluded, counted in known_findings_hit']


def worker(ctx):
    shapecheck.worker(ctx, PROP)


def replay_file(path):
    return shapecheck.replay_file(PROP, path)


def main(tier, seed, workers):
    return shapecheck.main(PROP, 'props.c05', tier, seed, workers, RULE, ASSUME)
