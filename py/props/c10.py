"""C10  Face options change resource behaviour, never results.

Hypothesis: well-formed fonts (shipped + synthesised) x texts / directions / encodings / feature settings; every case is
evaluated under all 8 face-option values x {callback face, file face} = 16 configurations; the face report (glyph
count, features with ids/settings/labels, languages, default and per-language feature values, character support,
gr_face_info) and the segment dump must be identical to the reference configuration (default options, callbacks)."""
import os, sys, json, time, struct, glob
import framework as fw
from framework import Violation, Inconclusive
from driver import Driver, DriverCrash, DriverHang
import fonts, cases
from fonts import report_payload

PROP = 'C10'
VARIANTS = ['asan-direct']
CONFIGS = [(src, opts) for src in (0, 1) for opts in range(8)] + [(8, 0), (9, 4), (8, 6)]       # src + 8: deprecated *_with_seg_cache constructors
RULE = ('Hypothesis: (font, text <= 24, dir 0..7, enc, feature settings) with fonts from the shipped set, C06-regime synthesised fonts and fonts with a generated cmap (format 4 + format 12, boundary code points in the text); each case shaped under 19 configurations '
        '(options 0..7 x {callbacks, file} + three deprecated *_with_seg_cache constructors); face report compared once per font and configuration. Oracle: exact equality with the default/callback configuration. '
        'Non-trivial: the segment had >= 1 rule fired. Distinct by case JSON.')
ASSUME = ['fonts are well-formed (shipped or compiled by fontsynth); exact equality is the right comparator (design probe: 6 option values agree exactly on 3000 segments)']
CHARS = [0x20, 0x41, 0x61, 0x62, 0x7A, 0xE9, 0x301, 0x627, 0x644, 0x915, 0x1000, 0x1031, 0x2019, 0xFFFD, 0xFFFF, 0x10000, 0x1F600] + list(range(0x60, 0x70))


def report(drv, fid, src, opts, cached):
    r = drv.call(report_payload(fid, src | (0 if not cached else 0), opts, labels=True, label_langs=(0x0409, 0x0407), extra_langs=(0x656E0000, 0x20202020), chars=CHARS), timeout=120)
    return r


def judge(case, drv, reports=None, configs=None):
    configs = configs or CONFIGS[1:]
    font = cases.font_bytes(case)
    fid = drv.put_font(font)
    cached = 0x80 if case['kind'] == 'shipped' else 0
    key = case.get('font') or json.dumps(case.get('spec') or case.get('cmap'), sort_keys=True)
    try:
        ref = cases.shape(drv, fid, case, src=cached | 0, opts=0)
        if not ref.get('face'):
            raise Inconclusive()
        if reports is not None and key not in reports:
            base = report(drv, fid, 0, 0, False)
            for src, opts in CONFIGS[1:]:
                r = report(drv, fid, src, opts, False)
                if r.get('face') != base.get('face'):
                    raise Violation('face-acceptance-depends-on-options', dict(case, config=[src, opts]), '')
                if r.get('report') != base.get('report'):
                    a, b = base.get('report', {}), r.get('report', {})
                    diff = [k for k in a if a.get(k) != b.get(k)]
                    raise Violation('face-report-depends-on-options', dict(case, config=[src, opts]), 'keys differing: %s' % diff)
            reports[key] = True
        for src, opts in configs:
            r = cases.shape(drv, fid, case, src=cached | src, opts=opts)
            if r.get('face') != ref.get('face') or r.get('seg') != ref.get('seg'):
                raise Violation('segment-presence-depends-on-options', dict(case, config=[src, opts]), '')
            if r.get('dump') != ref.get('dump'):
                raise Violation('segment-depends-on-face-options', dict(case, config=[src, opts]), '')
    except DriverCrash as e:
        raise Violation('sanitizer:' + e.kind + ':' + e.summary, case, e.stderr[-1500:])
    except DriverHang:
        raise Inconclusive()
    return ref


def replay_case(case):
    drv = Driver(timeout=120)
    try:
        judge(case, drv, {})
    finally:
        drv.kill()


def replay_file(path):
    d = json.load(open(path))
    try:
        replay_case(d['case'])
    except Violation as v:
        print('VIOLATION property=%s replay=%s label=%s' % (PROP, path, v.label))
        return 1
    print('replay: property held on', path)
    return 0


def worker(ctx):
    ctx.same = lambda a, b: True        # the replay compares the face report first: any C10 violation on the same case confirms
    from hypothesis import given
    drv = Driver(timeout=120)
    rec = ctx.rec
    names = list(cases.SHIPPED_ALL if ctx.thorough() else cases.SHIPPED_QUICK) + ['Awami_test.ttf#nosub']      # collision font whose glyphs have octaboxes but no sub-boxes (F17)
    sup = cases.supported_map(drv, names)
    reports = {}

    def make(deco):
        @deco
        @given(cases.case_strategy(names, sup))
        def t(case):
            r = judge(case, drv, reports)
            nt = bool(r.get('fired'))
            rec.evaluations += len(CONFIGS) - 1
            rec.case(nontrivial_sig=json.dumps(case, sort_keys=True) if nt else None,
                     sample=dict(font=case.get('font', 'synthesised'), text=case['text'], dir=case['dir'], enc=case['enc'], configs=16, rules_fired=r.get('fired')) if nt else None,
                     shipped=case['kind'] == 'shipped', synthesised=case['kind'] == 'spec', rule_fired=nt, seg_null=not r.get('seg'))
        return t

    # corpus sweep: every line (quick: a stride sample of <= 600 per font) of the text files the repository pairs with each shipped font,
    # in the script's own direction, lazy/callback face against preloading, file and cmap-caching faces.  Seed S8-C10 (a null guard in
    # GlyphCache::check) changed 5 of the 531 Awami lines and no random text: only real words fire the rule that sets an exclusion glyph.
    import corpustext
    SWEEP = [(0, 6), (1, 0), (1, 2), (0, 4)]
    for f in names:
        ls = corpustext.sample(f, 600 if not ctx.thorough() else 4000)
        for i, (where, txt) in enumerate(ls):
            if i % ctx.nworkers != ctx.k:
                continue
            case = dict(kind='shipped', font=f, text=txt, dir=corpustext.natural_dir(f), enc=4, feats=[], line=where)
            try:
                r = judge(case, drv, None, configs=SWEEP)
            except Violation as v:
                ctx.report(v, replay_case)
                continue
            except Inconclusive:
                continue
            rec.evaluations += len(SWEEP)
            rec.case(nontrivial_sig=json.dumps(case, sort_keys=True) if r.get('fired') else None, sample=None, corpus_line=True)

    # fonts with generated cmaps (format 4 + format 12, boundary code points): the cmap-caching option must not change lookups
    import props.c13 as c13
    from hypothesis import strategies as st

    @st.composite
    def cmap_case(draw):
        c = draw(c13.cmap_strategy())
        pts = [0x10000, 0x10001, 0xFFFF, 0xFFFE, 0x10FFFF, 1, 2]
        for t in c['f4']:
            for sg in t['segs'][:6]:
                pts += [sg[0], sg[1]]
        if c.get('f12'):
            for g in c['f12']['groups'][:6]:
                pts += [g[0], g[1]]
        txt = [p for p in draw(st.lists(st.sampled_from(pts), min_size=1, max_size=8)) if p]
        return dict(kind='cmap', cmap=c, text=txt, dir=draw(st.integers(0, 1)), enc=draw(st.sampled_from([1, 2, 4])), feats=[])

    def make_cmap(deco):
        @deco
        @given(cmap_case())
        def t(case):
            r = judge(case, drv, None)
            rec.evaluations += len(CONFIGS) - 1
            nt = bool(r.get('seg')) and any(s['g'] for s in r['dump']['slots'])
            rec.case(nontrivial_sig=json.dumps(case, sort_keys=True) if nt else None, sample=dict(font='generated cmap', text=case['text'], configs=16) if nt else None,
                     cmap_font=1, cmap_font_astral=any(c > 0xFFFF for c in case['text']))
        return t

    n = ctx.n(9600, 160000) // ctx.nworkers + 1
    ctx.run_hypothesis(make, n, chunk=25, replay_fn=replay_case, share=0.7)
    ctx.run_hypothesis(make_cmap, n // 4, chunk=25, replay_fn=replay_case)
    rec.count('fonts_with_report_compared_across_16_configs', len(reports))
    try:
        drv.stop()
    except DriverCrash as e:
        ctx.report(Violation('sanitizer-at-exit:' + e.kind + ':' + e.summary, dict(kind='exit'), e.stderr[-1500:]))


def main(tier, seed, workers):
    t0 = time.time()
    ctx = fw.Ctx(PROP, tier, seed, 0, 1, 3600)
    for f in sorted(glob.glob(os.path.join(fw.VERIF, 'replay', PROP, '*.json'))):
        try:
            replay_case(json.load(open(f))['case'])
            ctx.rec.count('replay_files_passed')
        except Violation as v:
            ctx.report(v, replay_case)
    pm = fw.run_workers('props.c10', PROP, tier, seed, workers, 50 if tier == 'quick' else 900)
    mm = fw.merge([dict(ctx.rec.dump(), error=None), dict(pm, nontrivial=sorted(pm['nontrivial']), error=None)])
    mm['errors'] = pm['errors']
    fw.write_evidence(PROP, tier, seed, 'exploration', mm, RULE, time.time() - t0, ASSUME)
    return fw.finish(PROP, mm, fw.load_known())
