"""C04  Glyph attachments always form a forest over the segment's own slots  (shared machinery: py/shapecheck.py, harness/seginv.h, harness/fz_shape.cpp)"""
import shapecheck

PROP = 'C04'
VARIANTS = ['asan-direct']
RULE = ('Generators: (a) fz_shape libFuzzer campaign (16 forked workers, table-aware mutator) over synthesised + minified shipped fonts, header bytes select face options/table source/encoding/dir 0..7/ppm/features/language/NUL-termination, text drawn from the face\'s own mapped code points plus unmapped, astral and ill-formed units; (b) Hypothesis "wild" GDL-lite programs (backward cursor, insert-heavy, attach chains and re-attachment, put_copy/assoc in positioning passes, substitution through arbitrary class pairs, division, arbitrary slot attributes, reversed passes, NSM/mirror/pseudo glyphs, unreadable glyphs, linear and bisected class tables, justification levels, line-end contextuals; for C04 half of them attachment-stress programs over a 3-4 glyph alphabet) x 1-4 probes; (c) shipped fonts x cmap-guided texts (1 in 4 with raw ill-formed code-unit fragments) x 3 encodings x dir 0..7 x font NULL / unhinted / hinted. Oracle (seginv.h): parent chains terminate within n steps inside the segment; an attached slot occurs exactly once in its parent\'s child chain and every member names that parent; bases form a single sibling chain containing each base once. Non-trivial: >=1 attached slot (sub-class: depth >= 2). Distinct by input hash / case JSON.')
ASSUME = ['predicates validated on 30k segments of the shipped fonts during design (probe)']


def worker(ctx):
    shapecheck.worker(ctx, PROP)


def replay_file(path):
    return shapecheck.replay_file(PROP, path)


def main(tier, seed, workers):
    return shapecheck.main(PROP, 'props.c04', tier, seed, workers, RULE, ASSUME)
