"""C16  Table callbacks follow strict borrow discipline; nothing is leaked.

Oracle: harness/memface.h -- every table handed out is an exact-size heap copy recorded in a ledger; release of an
unknown / already released pointer, tables still outstanding after gr_face_destroy or after a failed gr_make_face, and
(for gr_face_preloadAll) any get_table call after construction are discipline errors; a released buffer is freed, so a
later dereference is an ASan use-after-free; LeakSanitizer is asked at quiescence.
Engines: (1) enum_face sweep over corrupted fonts, (2) fz_face and fz_shape campaigns reporting C16 labels,
(3) Hypothesis call histories (segments, fonts, feature values, labels, reports, destruction in ownership-respecting
order) on well-formed and corrupted fonts through grdrv's history command."""
import os, sys, json, time, struct, glob
from concurrent.futures import ThreadPoolExecutor
import framework as fw
from framework import Violation, Inconclusive
from driver import Driver, DriverCrash, DriverHang, shape_params, encode_text
from enumrun import run_enum
import fonts, cases, fuzzrun, gdlgen
import props.c01 as c01
from paths import CORPUS, VERIF, REPO

PROP = 'C16'
VARIANTS = ['asan-direct']
RULE = ('(1) boundary sweep (see C01) with the ledger oracle; (2) fz_face / fz_shape campaigns with FZ_REPORT=C16; (3) Hypothesis histories of 2..20 operations (make_seg kept / dropped, '
        'fonts, feature values, label queries in 3 encodings by index and by feature id, reports) on shipped / synthesised fonts (1 in 3 of those with every feature hidden), 1 in 3 with 1..3 corrupted bytes inside Graphite tables, face options 0..7, '
        'LeakSanitizer consulted at quiescence every 50 histories. Non-trivial: >= 5 tables borrowed and (the face was rejected after >= 3 borrows, or a table was borrowed after construction). '
        'Distinct by case JSON / (offset,value) / input hash.')
ASSUME = ['the ledger sees every get_table / release_table call (callbacks source); file faces and the deprecated no-release API are exercised for safety only']


def judge_history(case, drv):
    font = bytearray(cases.font_bytes(case))
    for off, val in case.get('corrupt', []):
        if off < len(font):
            font[off] = val
    font = bytes(font)
    fid = drv.put_font(font)
    import props.c08 as c08
    payload, tags = c08.build(case)
    try:
        r = drv.call(b'H' + struct.pack('<IBB', fid, 0, case['opts']) + payload, timeout=60)
    except DriverCrash as e:
        if 'use-after-free' in e.summary or 'double-free' in e.summary:
            raise Violation('sanitizer:' + e.kind + ':' + e.summary, case, e.stderr[-1500:])
        return None, ['C01:' + e.kind + ':' + e.summary]
    except DriverHang:
        raise Inconclusive()
    finally:
        try:
            drv.drop_font(fid)
        except (DriverCrash, DriverHang):
            pass
    if 'error' in r:
        raise Inconclusive()
    if not r.get('face'):
        # failed gr_make_face: everything obtained must have been released -- checked through the shape command's ledger
        try:
            fid = drv.put_font(font)
            s = drv.call(b'S' + struct.pack('<IBB', fid, 0, case['opts']) + shape_params(b'', enc=4))
            drv.drop_font(fid)
        except (DriverCrash, DriverHang):
            return None, []
        led = s.get('ledger') or {}
        if led.get('out') or led.get('errors'):
            raise Violation('tables-outstanding-after-failed-make_face', case, json.dumps(led))
        return dict(face=0, ledger=led), []
    led = r['ledger']
    if led['out']:
        raise Violation('tables-outstanding-after-face_destroy', case, json.dumps(led))
    if led['errors']:
        raise Violation('release-discipline', case, json.dumps(led))
    if (case['opts'] & 6) == 6 and led['after_freeze']:
        raise Violation('get_table-after-preloadAll-construction', case, json.dumps(led))
    return r, []


def replay_case(case):
    if case.get('kind') == 'bin':
        for tgt in ('fz_face', 'fz_shape'):
            if tgt in os.path.basename(case['path']):
                res = fuzzrun.replay_bin(PROP, tgt, case['path'], report=PROP)
                if res and res[0] == PROP:
                    raise Violation(res[1], case, '')
        return
    if case.get('kind') in ('sweep', 'one', 'fuzzfile'):
        res, crash = run_enum('enum_face', c01.case_cmd(case), timeout=200)
        for label in (res or {}).get('fails', {}):
            if label.startswith('C16:'):
                raise Violation(label[4:], case, '')
        return
    drv = Driver()
    try:
        judge_history(case, drv)
    finally:
        drv.kill()


def replay_file(path):
    case = dict(kind='bin', path=path) if path.endswith('.bin') else json.load(open(path))['case']
    try:
        replay_case(case)
    except Violation as v:
        print('VIOLATION property=%s replay=%s label=%s' % (PROP, path, v.label))
        return 1
    print('replay: property held on', path)
    return 0


def worker(ctx):
    from hypothesis import given, strategies as st
    import sfnt
    drv = Driver()
    rec = ctx.rec
    names = cases.SHIPPED_QUICK
    sup = cases.supported_map(drv, names)
    state = dict(n=0)

    @st.composite
    def history(draw):
        if draw(st.integers(0, 2)) == 0:
            f = draw(st.sampled_from(names))
            base = dict(kind='shipped', font=f)
            pool = sup[f] or [0x41]
            fontlen = len(fonts.load(f))
            ranges = [(o, l) for t, o, l in sfnt.table_ranges(fonts.load(f)) if t in (b'Silf', b'Glat', b'Gloc', b'Feat', b'Sill', b'cmap', b'name', b'hhea', b'maxp')]
        else:
            cc = draw(gdlgen.c06_case(max_len=10, nprobes=1))
            base = dict(kind='spec', spec=cc['spec'])
            if cc['spec'].get('feats') and draw(st.integers(0, 2)) == 0:
                # every feature hidden (Feat flag 0x0800): gr_face_n_fref() is 0 although gr_face_find_fref still finds them
                base['spec'] = dict(cc['spec'], feats=[dict(f, flags=0x0800) for f in cc['spec']['feats']])
            pool = [gdlgen.cp_of(g) for g in range(1, len(cc['spec']['glyphs']))]
            ranges = None
        ops = [dict(k='report')]
        for _ in range(draw(st.integers(1, 18))):
            c = draw(st.integers(0, 9))
            t = draw(st.lists(st.sampled_from(pool), max_size=10))
            if c <= 3: ops.append(dict(k='seg', text=t, dir=draw(st.integers(0, 7)), enc=4, keep=draw(st.booleans()), font=draw(st.integers(-1, 1)), fv=draw(st.integers(-1, 1))))
            elif c == 4: ops.append(dict(k='font', ppm=12.0))
            elif c == 5: ops.append(dict(k='fv', tag=draw(st.sampled_from([0, 0x656E0000]))))
            elif c == 6 and base['kind'] == 'spec' and base['spec'].get('feats') and draw(st.booleans()):
                ops.append(dict(k='label_id', id=draw(st.sampled_from([f['id'] for f in base['spec']['feats']])), s=draw(st.integers(-1, 2)), lang=0x409, enc=draw(st.sampled_from([1, 2, 4]))))
            elif c == 6: ops.append(dict(k='label', f=draw(st.integers(0, 6)), s=draw(st.integers(-1, 2)), lang=0x409, enc=draw(st.sampled_from([1, 2, 4]))))
            elif c == 7: ops.append(dict(k='report'))
            elif c == 8: ops.append(dict(k='destroy_seg', i=draw(st.integers(0, 4))))
            else: ops.append(dict(k='sup', cp=draw(st.sampled_from(pool))))
        case = dict(base, ops=ops, opts=draw(st.integers(0, 7)))
        if draw(st.integers(0, 2)) == 0:
            cor = []
            for _ in range(draw(st.integers(1, 3))):
                if ranges:
                    o, l = ranges[draw(st.integers(0, len(ranges) - 1))]
                    cor.append([o + draw(st.integers(0, min(l, 400) - 1)), draw(st.sampled_from([0, 1, 0x7F, 0x80, 0xFF]))])
                else:
                    cor.append([draw(st.integers(12, 1400)), draw(st.sampled_from([0, 1, 0x7F, 0x80, 0xFF]))])
            case['corrupt'] = cor
        return case

    def make(deco):
        @deco
        @given(history())
        def t(case):
            r, other = judge_history(case, drv)
            for o in other:
                rec.other[o] = rec.other.get(o, 0) + 1
            state['n'] += 1
            if state['n'] % 50 == 0:
                try:
                    k = drv.call(b'K')
                    if k.get('leaks'):
                        raise Violation('leak-at-quiescence', case, 'LeakSanitizer reported a leak after this history (or one of the 49 before it)')
                except DriverCrash as e:
                    raise Violation('sanitizer:' + e.kind + ':' + e.summary, case, e.stderr[-1500:])
                rec.count('leak_checks')
            if r is None:
                rec.case(crashed_elsewhere=1)
                return
            led = r.get('ledger') or {}
            rejected = not r.get('face')
            nt = led.get('gets', 0) >= 5 and (rejected and led.get('gets', 0) - led.get('nullgets', 0) >= 3 or (not rejected and (case['opts'] & 2) == 0))
            rec.case(nontrivial_sig=json.dumps(case, sort_keys=True) if nt else None,
                     sample=dict(font=case.get('font', 'synthesised'), opts=case['opts'], corrupt=case.get('corrupt'), ops=[o['k'] for o in case['ops']], ledger=led) if nt else None,
                     accepted=not rejected, rejected=rejected, corrupted=bool(case.get('corrupt')), preload_all=(case['opts'] & 6) == 6, lazy_borrows=not rejected and (case['opts'] & 2) == 0)
        return t

    ctx.run_hypothesis(make, ctx.n(8000, 200000) // ctx.nworkers + 1, chunk=50, replay_fn=replay_case)
    try:
        drv.stop()
    except DriverCrash as e:
        if e.kind == 'lsan':
            ctx.report(Violation('leak-at-exit', dict(kind='exit'), e.stderr[-1500:]))
        else:
            rec.other['C01:at-exit:' + e.summary] = 1


def main(tier, seed, workers):
    t0 = time.time()
    ctx = fw.Ctx(PROP, tier, seed, 0, 1, 3600)
    m = fw.merge([])
    for f in sorted(glob.glob(os.path.join(VERIF, 'replay', PROP, '*'))):
        try:
            replay_case(dict(kind='bin', path=f) if f.endswith('.bin') else json.load(open(f))['case'])
            ctx.rec.count('replay_files_passed')
        except Violation as v:
            ctx.report(v, replay_case)
    # (1) sweep with the ledger oracle
    jobs = []
    for font in c01.seed_fonts(tier)[:6 if tier == 'quick' else 40]:
        for k in range(4):
            jobs.append((font, ['sweep', font, k, 4]))
    with ThreadPoolExecutor(max_workers=workers) as ex:
        results = list(ex.map(lambda j: (j, run_enum('enum_face', j[1], timeout=3000)), jobs))
    nt = 0
    for (font, args), (res, crash) in results:
        if crash and crash['kind'] != 'timeout' and ('use-after-free' in crash['summary'] or 'double-free' in crash['summary']):
            ctx.report(Violation('sanitizer:' + crash['kind'] + ':' + crash['summary'], dict(crash['case'] or {}, font=font), crash['stderr'][-1500:]), replay_case)
        elif crash:
            m['other']['C01:' + crash['summary'][:60]] = 1
        if res:
            m['evaluations'] += res['evaluations']
            nt += res['deep_rejects'] + res['loaded']
            m['classes']['sweep_loaded'] = m['classes'].get('sweep_loaded', 0) + res['loaded']
            m['classes']['sweep_rejected_after_borrows'] = m['classes'].get('sweep_rejected_after_borrows', 0) + res['deep_rejects']
            for label, info in res['fails'].items():
                p, l = label.split(':', 1)
                if p == PROP:
                    ctx.report(Violation(l, dict(info['first'], font=font), 'count=%d' % info['count']), replay_case)
    m['samples'].append(dict(engine='sweep', font='corpus/synth/000.ttf', offset=300, value='0xFF', width=1, opts=6, src=0, ledger='checked after destroy / failed load'))
    # (2) fuzz campaigns
    fznt = set()
    for tgt, hdr, secs in (('fz_face', 16, 18 if tier == 'quick' else 400), ('fz_shape', 64, 18 if tier == 'quick' else 400)):
        fz = fuzzrun.campaign(PROP, tgt, os.path.join(CORPUS, tgt), secs, workers, seed, report=PROP, hdr=hdr)
        m['evaluations'] += fz['stats'].get('execs', 0)
        m['classes'][tgt + '_execs'] = fz['stats'].get('execs', 0)
        m['classes'][tgt + '_faces_loaded'] = fz['stats'].get('face_loaded', 0)
        m['notes'] += fz['notes']
        fznt |= set(tgt + h for h in fz['nontrivial'])
        for v in fz['violations']:
            if v['prop'] == PROP:
                m['violations'].append(dict(label=v['label'], detail=v['detail'][-600:], replay=v['replay']))
            else:
                m['other'][v['prop'] + ':' + v['label']] = 1
    pm = fw.run_workers('props.c16', PROP, tier, seed, workers, 40 if tier == 'quick' else 900)
    mm = fw.merge([dict(m, nontrivial=[], error=None), dict(ctx.rec.dump(), error=None), dict(pm, nontrivial=sorted(pm['nontrivial']), error=None)])
    mm['errors'] = pm['errors']
    mm['nontrivial'] = nt + len(fznt) + len(pm['nontrivial'])
    fw.write_evidence(PROP, tier, seed, 'exploration', mm, RULE, time.time() - t0, ASSUME)
    return fw.finish(PROP, mm, fw.load_known())
