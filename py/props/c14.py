"""C14  Compressed tables are transparent; the LZ4 decoder is exact and bounded.

(a) valid encodings: a *generator of LZ4 encoders* (lz4ref.encode_with: random literal runs, match choice among all earlier
    occurrences, overlapping matches, length codes straddling 15 and 15+255, end-of-block rules honoured) applied to real
    Silf/Glat tables and adversarial strings -> lz4::decompress must return the plaintext exactly;
(b) arbitrary / mutated blocks (Hypothesis + fz_lz4): return < 0, or the returned bytes are a prefix of what the permissive
    reference decoder produces, never more than the announced size; ASan on exact-size input/output blocks;
(c) whole fonts: Silf (v5) and/or Glat (v3) stored compressed with encodings from (a) vs stored plain: both load, face
    report and segment dumps identical; wrong scheme / size field / version word => the face does not load, ledger clean."""
import os, sys, json, time, struct, glob, random
import framework as fw
from framework import Violation, Inconclusive
from driver import Driver, DriverCrash, DriverHang, shape_params, encode_text, blob
import fontsynth, lz4ref, sfnt, fonts, fuzzrun, gdlgen
from paths import CORPUS, VERIF

PROP = 'C14'
VARIANTS = ['asan-direct']
RULE = ('(a) plaintexts: Silf/Glat tables of shipped and synthesised fonts (whole, seeded choices) and slices / adversarial strings <= 2 KB (every encoder decision a Hypothesis draw); '
        'encodings not shorter than the plaintext are skipped and counted. (b) blocks: valid encodings with 1-4 Hypothesis byte edits / truncations / random bytes, announced size exact, +-k or arbitrary; '
        'fz_lz4 coverage-guided on the same. (c) synthesised v5/v3 fonts and Awami_compressed_test.ttf: compressed vs plain layout x probes. Non-trivial: the block has >= 1 match '
        '(sub-classes: overlapping match, extended literal/match length, 15/270 boundaries). Distinct by block bytes.')
ASSUME = ['reference decoder/encoder py/lz4ref.py + harness/lz4ref.h written from the LZ4 block format description', 'ASan on exact-size heap blocks']

_tables = None


def plaintexts():
    global _tables
    if _tables is None:
        out = []
        for name in ['Padauk.ttf', 'Awami_test.ttf', 'general.ttf', 'charis_r_gr.ttf']:
            t = sfnt.parse(fonts.load(name))
            for tag in (b'Silf', b'Glat'):
                if tag in t and len(t[tag]) < 300000:
                    out.append((name + ':' + tag.decode(), t[tag]))
        for f in sorted(glob.glob(os.path.join(CORPUS, 'synth', '*.ttf')))[:12]:
            t = sfnt.parse(open(f, 'rb').read())
            out.append((os.path.basename(f) + ':Silf', t[b'Silf']))
        _tables = out
    return _tables


def call_lz4(drv, blk, out_size, case):
    try:
        return drv.call(b'L' + struct.pack('<I', out_size) + blob(blk), timeout=60)
    except DriverCrash as e:
        raise Violation('sanitizer:' + e.kind + ':' + e.summary, case, e.stderr[-1500:])
    except DriverHang:
        raise Inconclusive()


def judge_valid(case, drv):
    plain = bytes.fromhex(case['plain'])
    blk = bytes.fromhex(case['block'])
    why, ref = lz4ref.decode(blk)
    if why != lz4ref.END_OK or ref != plain:
        raise Inconclusive()          # my encoder is wrong: a harness bug, never a finding
    if len(blk) >= len(plain) or len(blk) < 13:
        return None                   # the decoder by contract rejects encodings that do not shrink the data
    r = call_lz4(drv, blk, len(plain), case)
    if r['r'] != len(plain):
        raise Violation('valid-encoding-rejected-or-wrong-length', case, 'r=%d want=%d' % (r['r'], len(plain)))
    if bytes.fromhex(r['out']) != plain:
        raise Violation('valid-encoding-decoded-to-different-bytes', case, '')
    return r


def judge_block(case, drv):
    blk = bytes.fromhex(case['block'])
    why, ref = lz4ref.decode(blk, 1 << 20)
    r = call_lz4(drv, blk, case['out_size'], case)
    if 'error' in r:
        raise Inconclusive()
    if r['r'] >= 0:
        if r['r'] > case['out_size']:
            raise Violation('returned-length-exceeds-announced-output-size', case, str(r['r']))
        if r['r'] > len(ref):
            raise Violation('produced-more-bytes-than-a-reference-decoder-can-justify', case, 'r=%d ref=%d (%s)' % (r['r'], len(ref), why))
        out = bytes.fromhex(r.get('out', ''))
        if out != ref[:r['r']]:
            raise Violation('output-differs-from-reference-decoder', case, '')
    return r, why, ref


def compress_table(plain, rng, scheme=1, size_delta=0, inner_version=None):
    blk, st = lz4ref.encode_with(plain, lambda k, lo, hi: rng.randint(lo, hi))
    ver = plain[:4]
    hdr = (scheme << 27) | ((len(plain) + size_delta) & 0x07FFFFFF)
    return ver + struct.pack('>I', hdr) + blk, st, len(blk) < len(plain)


def judge_font(case, drv):
    """case: spec (silf v5 / glat v3), which tables compressed, rng seed, header fault, probes"""
    spec = case['spec']
    try:
        tables = fontsynth.build_tables(spec)
    except (ValueError, struct.error):
        raise Inconclusive()
    plain_font = sfnt.build(tables)
    rng = random.Random(case['seed'])
    ct = dict(tables)
    ok_all = True
    for tag in case['compress']:
        comp, st, smaller = compress_table(tables[tag.encode()], rng, case.get('scheme', 1), case.get('size_delta', 0))
        if case.get('flip_version'):
            # corrupt the version word *inside* the compressed data: re-encode a plaintext whose first word differs
            p2 = bytes([tables[tag.encode()][0] ^ 1]) + tables[tag.encode()][1:]
            comp2, st, smaller = compress_table(p2, rng, case.get('scheme', 1))
            comp = tables[tag.encode()][:4] + comp2[4:]
        ok_all = ok_all and smaller
        ct[tag.encode()] = comp
    if not ok_all:
        return None
    comp_font = sfnt.build(ct)
    fa = drv.put_font(plain_font); fb = drv.put_font(comp_font)
    faulty = case.get('scheme', 1) != 1 or case.get('size_delta', 0) != 0 or case.get('flip_version')
    res = []
    try:
        for pr in case['probes']:
            pa = b'S' + struct.pack('<IBB', fa, 0, pr.get('opts', 0)) + shape_params(encode_text(pr['text'], 4), enc=4, dir=pr['dir'], feats=[tuple(x) for x in pr['feats']])
            pb = b'S' + struct.pack('<IBB', fb, 0, pr.get('opts', 0)) + shape_params(encode_text(pr['text'], 4), enc=4, dir=pr['dir'], feats=[tuple(x) for x in pr['feats']])
            ra = drv.call(pa); rb = drv.call(pb)
            if not ra.get('face'):
                raise Inconclusive()
            if faulty:
                if case.get('scheme', 1) == 0:
                    pass      # scheme 0 = "not compressed": the bytes are then read as a plain table; whatever happens must be safe
                elif rb.get('face'):
                    raise Violation('face-loaded-despite-bad-compression-header', case, '')
                if rb.get('ledger') and (rb['ledger']['out'] or rb['ledger']['errors']):
                    raise Violation('tables-not-released-after-failed-decompression', case, json.dumps(rb['ledger']))
                continue
            if not rb.get('face'):
                raise Violation('compressed-font-rejected', case, 'lerr=%s' % (rb.get('lerr'),))
            if ra.get('seg') != rb.get('seg') or ra.get('dump') != rb.get('dump'):
                raise Violation('compressed-font-shapes-differently', case, '')
            res.append(ra)
    except DriverCrash as e:
        raise Violation('sanitizer:' + e.kind + ':' + e.summary, case, e.stderr[-1500:])
    except DriverHang:
        raise Inconclusive()
    finally:
        try:
            drv.drop_font(fa); drv.drop_font(fb)
        except (DriverCrash, DriverHang):
            pass
    return res


def replay_case(case):
    if case.get('kind') == 'bin':
        res = fuzzrun.replay_bin(PROP, 'fz_lz4', case['path'])
        if res:
            raise Violation(res[1], case, '')
        return
    drv = Driver()
    try:
        {'valid': judge_valid, 'block': judge_block, 'font': judge_font}[case['kind']](case, drv)
    finally:
        drv.kill()


def replay_file(path):
    case = dict(kind='bin', path=path) if path.endswith('.bin') else json.load(open(path))['case']
    try:
        replay_case(case)
    except Violation as v:
        print('VIOLATION property=%s replay=%s label=%s' % (PROP, path, v.label))
        return 1
    print('replay: property held on', path)
    return 0


def worker(ctx):
    from hypothesis import given, strategies as st
    drv = Driver()
    rec = ctx.rec
    tabs = plaintexts()

    adversarial = st.one_of(
        st.builds(lambda b, n: bytes([b]) * n, st.integers(0, 255), st.integers(20, 1200)),
        st.builds(lambda p, n: (p * n)[:2000], st.binary(min_size=1, max_size=9), st.integers(8, 300)),
        st.builds(lambda a, b, n: (a + b) * n, st.binary(min_size=3, max_size=20), st.binary(min_size=1, max_size=6), st.integers(4, 60)),
        st.lists(st.sampled_from([b'abcd', b'abcdabcd', b'\x00\x00\x00\x00', b'xyz', b'\xff' * 17, b'0123456789abcdef' * 2]), min_size=6, max_size=80).map(b''.join))

    def make_valid(deco):
        @deco
        @given(st.data())
        def t(data):
            k = data.draw(st.integers(0, 3))
            if k == 0:
                name, tab = tabs[data.draw(st.integers(0, len(tabs) - 1))]
                a = data.draw(st.integers(0, max(0, len(tab) - 64)))
                plain = tab[a:a + data.draw(st.integers(32, 1500))]
            else:
                plain = data.draw(adversarial)
            if len(plain) < 20:
                return
            blk, stt = lz4ref.encode_with(plain, lambda kind, lo, hi: data.draw(st.integers(lo, hi)))
            case = dict(kind='valid', plain=plain.hex(), block=blk.hex())
            r = judge_valid(case, drv)
            rec.case(nontrivial_sig=blk if (r and stt['matches']) else None, sample=dict(kind='valid', plain_len=len(plain), block_len=len(blk), **stt) if r else None,
                     valid_checked=bool(r), valid_not_smaller=r is None, overlap=stt['overlap'] > 0 and bool(r), ext_lit=stt['ext_lit'] > 0 and bool(r), ext_match=stt['ext_match'] > 0 and bool(r),
                     boundary15=stt['boundary15'] > 0 and bool(r))
        return t

    def make_whole(deco):
        @deco
        @given(st.integers(0, len(tabs) - 1), st.integers(0, 1 << 30))
        def t(ti, seed):
            name, plain = tabs[ti]
            rng = random.Random(seed)
            blk, stt = lz4ref.encode_with(plain, lambda kind, lo, hi: rng.randint(lo, hi))
            case = dict(kind='valid', plain=plain.hex(), block=blk.hex())
            r = judge_valid(case, drv)
            rec.case(nontrivial_sig=blk if r else None, sample=dict(kind='valid-table', table=name, plain_len=len(plain), block_len=len(blk), **stt) if r else None,
                     whole_table=bool(r), valid_not_smaller=r is None, long_match=stt['long_match'] > 0)
        return t

    def make_block(deco):
        @deco
        @given(st.data())
        def t(data):
            k = data.draw(st.integers(0, 4))
            if k == 0:
                blk = data.draw(st.binary(min_size=0, max_size=80))
            else:
                plain = data.draw(adversarial)[:600]
                if len(plain) < 20:
                    return
                seed = data.draw(st.integers(0, 1 << 20))
                rng = random.Random(seed)
                blk = bytearray(lz4ref.encode_with(plain, lambda kind, lo, hi: rng.randint(lo, hi))[0])
                for _ in range(data.draw(st.integers(0, 4))):
                    if not blk: break
                    i = data.draw(st.integers(0, len(blk) - 1))
                    blk[i] = data.draw(st.sampled_from([0, 1, 0x0F, 0x10, 0xF0, 0xFF, 0x80])) if data.draw(st.booleans()) else data.draw(st.integers(0, 255))
                if data.draw(st.integers(0, 3)) == 0:
                    blk = blk[:data.draw(st.integers(0, len(blk)))]
                blk = bytes(blk)
            why, ref = lz4ref.decode(blk, 1 << 20)
            osz = data.draw(st.sampled_from([len(ref), len(ref), len(ref) + 1, len(ref) + 8, max(0, len(ref) - 1), max(0, len(ref) - 5), len(blk), len(blk) + 1, 14, 4096]))
            case = dict(kind='block', block=blk.hex(), out_size=osz)
            r, why, ref = judge_block(case, drv)
            rec.case(nontrivial_sig=(blk, osz) if r['r'] > 0 else None, sample=dict(kind='block', block_len=len(blk), out_size=osz, returned=r['r'], reference_stop=why, reference_len=len(ref)) if r['r'] > 0 else None,
                     block_accepted=r['r'] >= 0, block_rejected=r['r'] < 0, ref_bad_offset=why == lz4ref.BAD_OFFSET, ref_truncated=why == lz4ref.TRUNCATED)
        return t

    def make_font(deco):
        @deco
        @given(gdlgen.c06_case(max_len=10, nprobes=2), st.integers(0, 1 << 20), st.sampled_from([['Silf'], ['Glat'], ['Silf', 'Glat']]), st.integers(0, 9))
        def t(case0, seed, which, fault):
            spec = case0['spec']
            spec['silf_version'] = 0x00050000
            spec['glat_version'] = 3
            case = dict(kind='font', spec=spec, probes=case0['probes'], seed=seed, compress=which)
            if fault == 0: case['scheme'] = 2 + seed % 30
            elif fault == 1: case['size_delta'] = 1 if seed & 1 else -1
            elif fault == 2: case['flip_version'] = True
            res = judge_font(case, drv)
            rec.case(nontrivial_sig=json.dumps(case, sort_keys=True) if res else None, sample=dict(kind='font', compressed=which, probes=len(case0['probes'])) if res else None,
                     font_compared=bool(res), font_fault_injected=fault <= 2 and res is not None, font_not_smaller=res is None)
        return t

    n = ctx.n(24000, 400000) // ctx.nworkers + 1
    ctx.run_hypothesis(make_valid, n // 3, replay_fn=replay_case, share=0.3)
    ctx.run_hypothesis(make_whole, max(2, n // 400), chunk=2, replay_fn=replay_case, share=0.25)
    ctx.run_hypothesis(make_block, n // 2, replay_fn=replay_case, share=0.6)
    ctx.run_hypothesis(make_font, n // 12, replay_fn=replay_case)
    try:
        drv.stop()
    except DriverCrash as e:
        ctx.report(Violation('sanitizer-at-exit:' + e.kind + ':' + e.summary, dict(kind='exit'), e.stderr[-1500:]))


def shipped_compressed(ctx, m):
    """Awami_compressed_test.ttf: its compressed tables, decoded by my reference and stored plain, must shape like the original"""
    drv = Driver(timeout=120)
    try:
        data = fonts.load('Awami_compressed_test.ttf')
        t = sfnt.parse(data)
        plain = dict(t)
        n = 0
        for tag in (b'Silf', b'Glat'):
            tab = t[tag]
            ver, hdr = struct.unpack('>II', tab[:8])
            if hdr >> 27 == 1:
                why, out = lz4ref.decode(tab[8:])
                if why != lz4ref.END_OK or len(out) != hdr & 0x07FFFFFF:
                    raise Inconclusive()
                plain[tag] = out
                n += 1
        if not n:
            return
        fa = drv.put_font(data); fb = drv.put_font(sfnt.build(plain))
        sup = fonts.supported(drv, 'Awami_compressed_test.ttf', data)
        rng = random.Random(ctx.seed)
        for i in range(40):
            txt = [sup[(rng.randrange(len(sup)) + k) % len(sup)] for k in range(rng.randint(1, 12))] if sup else [0x41]
            for d in (0, 1):
                ra = drv.call(b'S' + struct.pack('<IBB', fa, 0x80, 0) + shape_params(encode_text(txt, 4), dir=d), timeout=120)
                rb = drv.call(b'S' + struct.pack('<IBB', fb, 0x80, 0) + shape_params(encode_text(txt, 4), dir=d), timeout=120)
                m['evaluations'] += 1
                if not ra.get('face') or not rb.get('face'):
                    ctx.report(Violation('compressed-or-decompressed-shipped-font-rejected', dict(kind='shipped', text=txt), ''))
                    return
                if ra.get('dump') != rb.get('dump'):
                    ctx.report(Violation('compressed-font-shapes-differently', dict(kind='shipped', text=txt, dir=d), ''))
                    return
                m['classes']['shipped_compressed_vs_plain'] = m['classes'].get('shipped_compressed_vs_plain', 0) + 1
    except (DriverCrash,) as e:
        ctx.report(Violation('sanitizer:' + e.kind + ':' + e.summary, dict(kind='shipped'), e.stderr[-1500:]))
    except (DriverHang, Inconclusive):
        m['inconclusive'] += 1
    finally:
        drv.kill()


def main(tier, seed, workers):
    t0 = time.time()
    ctx = fw.Ctx(PROP, tier, seed, 0, 1, 3600)
    for f in sorted(glob.glob(os.path.join(VERIF, 'replay', PROP, '*'))):
        try:
            replay_case(dict(kind='bin', path=f) if f.endswith('.bin') else json.load(open(f))['case'])
            ctx.rec.count('replay_files_passed')
        except Violation as v:
            ctx.report(v, replay_case)
    m = fw.merge([])
    shipped_compressed(ctx, m)
    seeds = os.path.join(CORPUS, 'fz_lz4')
    fz = fuzzrun.campaign(PROP, 'fz_lz4', seeds, 25 if tier == 'quick' else 600, workers, seed, hdr=2, max_len=8192)
    m['evaluations'] += fz['stats'].get('execs', 0)
    m['classes'].update({'fz_' + k: v for k, v in fz['stats'].items()})
    m['notes'] += fz['notes']
    for v in fz['violations']:
        m['violations'].append(dict(label=v['label'], detail=v['detail'][-600:], replay=v['replay']))
    pm = fw.run_workers('props.c14', PROP, tier, seed, workers, 45 if tier == 'quick' else 900)
    mm = fw.merge([dict(m, nontrivial=['fz' + h for h in fz['nontrivial']], error=None), dict(ctx.rec.dump(), error=None), dict(pm, nontrivial=sorted(pm['nontrivial']), error=None)])
    mm['errors'] = pm['errors']
    fw.write_evidence(PROP, tier, seed, 'exploration', mm, RULE, time.time() - t0, ASSUME)
    return fw.finish(PROP, mm, fw.load_known())
