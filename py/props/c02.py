"""C02  Shaping any accepted font with any text is safe, terminating and bounded  (shared machinery: py/shapecheck.py, harness/seginv.h, harness/fz_shape.cpp)"""
import shapecheck

PROP = 'C02'
VARIANTS = ['asan-direct']
RULE = ('Generators: (a) fz_shape libFuzzer campaign (16 forked workers, table-aware mutator) over synthesised + minified shipped fonts, header bytes select face options/table source/encoding/dir 0..7/ppm/features/language/NUL-termination, text drawn from the face\'s own mapped code points plus unmapped, astral and ill-formed units; (b) Hypothesis "wild" GDL-lite programs (backward cursor, insert-heavy, attach chains and re-attachment, put_copy/assoc in positioning passes, substitution through arbitrary class pairs, division, arbitrary slot attributes, reversed passes, NSM/mirror/pseudo glyphs, unreadable glyphs, linear and bisected class tables, justification levels, line-end contextuals; for C04 half of them attachment-stress programs over a 3-4 glyph alphabet) x 1-4 probes; (c) shipped fonts x cmap-guided texts (1 in 4 with raw ill-formed code-unit fragments) x 3 encodings x dir 0..7 x font NULL / unhinted / hinted. Oracle: ASan/UBSan/LSan silent; hook H1: rule-loop iterations <= maxRuleLoop x (slots at pass start + insert budget + 2) for every pass; n_slots <= 64 x nChars; every gr_seg_*/gr_slot_*/gr_cinfo_* query (gr_slot_attr for all codes, sub-indices) and gr_seg_destroy complete; watchdog trips are confirmed 3x alone (40 s limit, fresh process) before being reported as does-not-return. Non-trivial: >=1 rule action executed or the segment was refused after rules ran. Distinct by input hash / case JSON.')
ASSUME = ['sanitizers make out-of-bounds accesses, UB and leaks visible', 'H1 bound derivation: DESIGN section 4', 'collision passes are covered for safety, not for a work bound']


def worker(ctx):
    shapecheck.worker(ctx, PROP)


def replay_file(path):
    return shapecheck.replay_file(PROP, path)


def main(tier, seed, workers):
    return shapecheck.main(PROP, 'props.c02', tier, seed, workers, RULE, ASSUME)
