"""C15  Positions are design-unit results scaled linearly by the font size.

Hypothesis: fonts (shipped + synthesised) x texts x directions x ppm in (0, 4096].  Metamorphic relation: the segment
made with an unhinted gr_font of P pixels per em has the same glyph ids, attachments and associations as the one made
with font = NULL, and every origin, advance and the segment advance equals the NULL value x P/upem up to a stated
single-precision tolerance."""
import os, sys, json, time, struct, glob
import framework as fw
from framework import Violation, Inconclusive
from driver import Driver, DriverCrash, DriverHang, shape_params, encode_text
import fonts, cases, sfnt

PROP = 'C15'
VARIANTS = ['asan-direct']
PPMS = [1e-3, 0.5, 1.0, 12.0, 96.5, 1000.0, 2048.0, 4096.0]
RULE = ('Hypothesis: (font, text <= 24, dir 0..7, enc) x ppm from {1e-3, 0.5, 1, 12, 96.5, upem, 2048, 4096, random in (0,4096]}. Oracle: gids / parents / before / after / user attributes '
        'identical to font=NULL; |value - NULL value * ppm/upem| <= 1e-5 * (largest design-unit magnitude compared, >= 1) * ppm/upem for every origin x/y, advance x/y (with and without the face argument) and the segment advance '
        '(observed worst relative deviation 2e-7; a missing scale factor is off by orders of magnitude). Non-trivial: the segment has an attached or shifted glyph or runs right to left. Second generator: left-to-right segments cut into two lines, the second line justified to 1.25 x its natural width with font NULL and with a font (width scaled), origins of that line and the returned width compared (slack: one design unit per slot, the engine hands stretch out in whole units). Distinct by case JSON.')
ASSUME = ['unhinted fonts only (gr_make_font without advance callbacks)', 'tolerance stated above; float32 arithmetic in the engine']


def fl(h):
    return float.fromhex(h)


def upem_of(font):
    t = sfnt.parse(font)
    return struct.unpack('>H', t[b'head'][18:20])[0]


def judge(case, drv):
    font = cases.font_bytes(case)
    fid = drv.put_font(font)
    cached = 0x80 if case['kind'] == 'shipped' else 0
    upem = upem_of(font)
    try:
        ref = cases.shape(drv, fid, case, src=cached, ppm=0.0)
        if not ref.get('face'):
            raise Inconclusive()
        got = cases.shape(drv, fid, case, src=cached, ppm=case['ppm'])
    except DriverCrash as e:
        raise Violation('sanitizer:' + e.kind + ':' + e.summary, case, e.stderr[-1500:])
    except DriverHang:
        raise Inconclusive()
    if ref.get('seg') != got.get('seg'):
        raise Violation('segment-presence-depends-on-font', case, '')
    if not ref.get('seg'):
        return ref, False
    a, b = ref['dump'], got['dump']
    if a['n'] != b['n'] or a['ci'] != b['ci']:
        raise Violation('slot-count-or-char-info-depends-on-font', case, '')
    scale = case['ppm'] / upem
    # the largest design-unit magnitude that is compared (origins, advances, segment advance): single-precision rounding is relative to it
    extent = max([1.0, abs(fl(a['adv'][0])), abs(fl(a['adv'][1]))] + [abs(fl(s[k][j])) for s in a['slots'] for k in ('o', 'a', 'a0') for j in (0, 1)])
    tol = 1e-5 * extent * scale
    def close(x, y, what, i):
        if not (abs(y - x * scale) <= tol):
            raise Violation('position-not-scaled-linearly:' + what, case, 'slot %d: NULL-font value %r * %r = %r, with font %r (tol %r)' % (i, x, scale, x * scale, y, tol))
    for i, (s, t) in enumerate(zip(a['slots'], b['slots'])):
        for k in ('g', 'i', 'b', 'f', 'r', 'p', 'c', 's', 'ins', 'u'):
            if s[k] != t[k]:
                raise Violation('glyphs-attachments-or-associations-depend-on-font', case, 'slot %d key %s: %r vs %r' % (i, k, s[k], t[k]))
        # gr_slatPosX / gr_slatPosY (indices 14, 15) are the integer parts of the (scaled) position: covered by the origin clause
        if s['at'][:14] + s['at'][16:] != t['at'][:14] + t['at'][16:]:
            raise Violation('slot-attributes-depend-on-font', case, 'slot %d' % i)
        close(fl(s['o'][0]), fl(t['o'][0]), 'origin-x', i); close(fl(s['o'][1]), fl(t['o'][1]), 'origin-y', i)
        close(fl(s['a'][0]), fl(t['a'][0]), 'advance-x', i); close(fl(s['a'][1]), fl(t['a'][1]), 'advance-y', i)
        close(fl(s['a0'][0]), fl(t['a0'][0]), 'advance-x-without-face-argument', i); close(fl(s['a0'][1]), fl(t['a0'][1]), 'advance-y-without-face-argument', i)
    close(fl(a['adv'][0]), fl(b['adv'][0]), 'segment-advance-x', -1); close(fl(a['adv'][1]), fl(b['adv'][1]), 'segment-advance-y', -1)
    nt = any(s['p'] >= 0 or s['at'][16] or s['at'][17] for s in a['slots']) or bool(case['dir'] & 1)
    return ref, nt


def replay_case(case):
    drv = Driver(timeout=120)
    try:
        if case.get('justified'):
            judge_justified(case, drv)
            return
        judge(case, drv)
    finally:
        drv.kill()


def replay_file(path):
    d = json.load(open(path))
    try:
        replay_case(d['case'])
    except Violation as v:
        print('VIOLATION property=%s replay=%s label=%s' % (PROP, path, v.label))
        return 1
    print('replay: property held on', path)
    return 0


def judge_justified(case, drv):
    """Positions after gr_slot_linebreak_before + gr_seg_justify scale like every other position: the second line of a left-to-right
    segment is justified to 1.25 x its natural width, once with font = NULL (width in design units) and once with a font of P
    pixels per em (width x P/upem); origins of that line and the returned width must agree up to the scaling."""
    import props.c19 as c19
    font = cases.font_bytes(case)
    info = c19.font_info(font)
    if info is None or (info['dir'] & 1) or (case['dir'] & 1):
        return None                                   # left-to-right font and text only (KF2 / RTL sibling order are C19 matters)
    upem = upem_of(font)
    fid = drv.put_font(font)
    scale = case['ppm'] / upem

    def run(ppm, width):
        tb = encode_text(case['text'], case.get('enc', 4))
        ops = b''
        n = 0
        if ppm:
            ops += bytes([3]) + struct.pack('<f', ppm); n += 1
        ops += bytes([1]) + struct.pack('<hhB', 0 if ppm else -1, -1, 1) + shape_params(tb, enc=case.get('enc', 4), dir=case['dir'], ppm=0.0); n += 1
        if width is not None:
            ops += bytes([15]) + struct.pack('<HH', 0, case['brk']); n += 1
            ops += bytes([14]) + struct.pack('<HHhdBhh', 0, case['brk'], 0 if ppm else -1, width, 0, -1, -1); n += 1
        ops += bytes([18]) + struct.pack('<H', 0); n += 1
        try:
            r = drv.call(b'H' + struct.pack('<IBB', fid, 0, 0) + struct.pack('<H', n) + ops, timeout=30)
        except DriverCrash as e:
            raise Violation('sanitizer:' + e.kind + ':' + e.summary, case, e.stderr[-1500:])
        except DriverHang:
            raise Inconclusive()
        if not r.get('face') or 'obs' not in r:
            raise Inconclusive()
        return r['obs']

    nat = run(0.0, None)
    if not nat or not nat[0].get('seg') or nat[-1] is None:
        return None
    pos = nat[-1]['pos']
    b = case['brk']
    if not (0 < b < len(pos)):
        return None
    line_nat = fl(nat[0]['dump']['adv'][0]) - pos[b][0]
    if not (line_nat > 1.0):
        return None
    W = 1.25 * line_nat
    a = run(0.0, W)
    g = run(case['ppm'], W * scale)
    if a[-1] is None or g[-1] is None or a[-2] is None or g[-2] is None:
        raise Inconclusive()
    nline = len(pos) - b
    # the engine hands out the stretch in whole design units per slot (truncation): one unit of slack per slot of the line
    tol = (1e-5 * max(1.0, W, abs(pos[b][0])) + nline + 2) * scale
    for i in range(b, len(pos)):
        for k, what in ((0, 'x'), (1, 'y')):
            if not (abs(g[-1]['pos'][i][k] - a[-1]['pos'][i][k] * scale) <= tol):
                raise Violation('justified-position-not-scaled-linearly:origin-' + what, case, 'slot %d: NULL-font %r * %r vs %r (tol %r)' % (i, a[-1]['pos'][i][k], scale, g[-1]['pos'][i][k], tol))
    wa, wg = float(a[-2]['w']), float(g[-2]['w'])
    if not (abs(wg - wa * scale) <= tol):
        raise Violation('justified-width-not-scaled-linearly', case, 'NULL-font %r * %r vs %r (tol %r)' % (wa, scale, wg, tol))
    return True


def worker(ctx):
    from hypothesis import given, strategies as st
    drv = Driver(timeout=120)
    rec = ctx.rec
    names = cases.SHIPPED_ALL if ctx.thorough() else cases.SHIPPED_QUICK
    sup = cases.supported_map(drv, names)

    def make(deco):
        @deco
        @given(cases.case_strategy(names, sup), st.one_of(st.sampled_from(PPMS), st.floats(min_value=0.0009765625, max_value=4096.0, allow_nan=False, width=32)))
        def t(case, ppm):
            case = dict(case, ppm=ppm)
            r, nt = judge(case, drv)
            rec.case(nontrivial_sig=json.dumps(case, sort_keys=True) if nt else None,
                     sample=dict(font=case.get('font', 'synthesised'), text=case['text'], dir=case['dir'], ppm=ppm, slots=r.get('st', {}).get('n')) if nt else None,
                     shipped=case['kind'] == 'shipped', synthesised=case['kind'] == 'spec', attached=r.get('st', {}).get('att', 0) > 0, rtl=bool(case['dir'] & 1), tiny_ppm=ppm < 1, huge_ppm=ppm > 1000)
        return t

    def make_just(deco):
        @deco
        @given(cases.case_strategy(names, sup, max_len=20), st.sampled_from([8.0, 12.0, 20.0, 96.5, 500.0, 2048.0]), st.integers(1, 12))
        def t(case, ppm, brk):
            txt = list(case['text'])
            if len(txt) >= 2:
                txt.insert(len(txt) // 2, 0x20)
            case = dict(case, text=txt, ppm=ppm, brk=brk, dir=case['dir'] & 6, justified=True)
            ok = judge_justified(case, drv)
            rec.case(nontrivial_sig=json.dumps(case, sort_keys=True) if ok else None, sample=dict(font=case.get('font', 'synthesised'), text=txt, ppm=ppm, line_break_before=brk, justified=True) if ok else None,
                     justified_line_compared=bool(ok))
        return t

    n = ctx.n(40000, 600000) // ctx.nworkers + 1
    ctx.run_hypothesis(make, n, replay_fn=replay_case, share=0.7)
    ctx.run_hypothesis(make_just, n // 5, replay_fn=replay_case)
    try:
        drv.stop()
    except DriverCrash as e:
        ctx.report(Violation('sanitizer-at-exit:' + e.kind + ':' + e.summary, dict(kind='exit'), e.stderr[-1500:]))


def main(tier, seed, workers):
    t0 = time.time()
    ctx = fw.Ctx(PROP, tier, seed, 0, 1, 3600)
    for f in sorted(glob.glob(os.path.join(fw.VERIF, 'replay', PROP, '*.json'))):
        try:
            replay_case(json.load(open(f))['case'])
            ctx.rec.count('replay_files_passed')
        except Violation as v:
            ctx.report(v, replay_case)
    pm = fw.run_workers('props.c15', PROP, tier, seed, workers, 45 if tier == 'quick' else 900)
    mm = fw.merge([dict(ctx.rec.dump(), error=None), dict(pm, nontrivial=sorted(pm['nontrivial']), error=None)])
    mm['errors'] = pm['errors']
    fw.write_evidence(PROP, tier, seed, 'exploration', mm, RULE, time.time() - t0, ASSUME)
    return fw.finish(PROP, mm, fw.load_known())
