"""C01  Font loading is total and memory-safe on arbitrary table bytes.

(1) replay tier; (2) deterministic boundary sweep (enum_face sweep): every byte / word of every table the
engine reads, and every directory entry, of ~12 small seed fonts set to boundary values, each loaded through
the instrumented callbacks / a file face / the deprecated no-release API with rotating face options, with every
gr_face_* / gr_fref_* / gr_featureval_* query exercised; (3) the repository's historical single-byte crashers
(tests/fuzz-tests/*/*/*.fuzz) applied to the shipped fonts; (4) fz_face libFuzzer campaign (table-aware mutator).
Oracle: ASan/UBSan/LSan silent, every query returns, borrow ledger clean (reported under C16), no hang
(SIGALRM 30 s in sweeps, libFuzzer -timeout, confirmed 3x)."""
import os, sys, json, time, glob, subprocess
from concurrent.futures import ThreadPoolExecutor
import framework as fw
from framework import Violation, Inconclusive
from enumrun import run_enum
import fuzzrun
from paths import CORPUS, VERIF, REPO

PROP = 'C01'
VARIANTS = ['asan-direct']
RULE = ('Sweep: for each seed font (synthesised Silf v2-v5/Glat v1-v3 fonts, small.ttf, tiny.ttf) and each byte offset inside head/hhea/hmtx/maxp/loca/cmap/name/Silf/Glat/Gloc/'
        'Feat/Sill and the table directory: 7 byte values, +-1, and 8 big-endian word values at even offsets; face options 0..7 and the three table sources rotate. '
        'Historical crashers: offset,value lines of tests/fuzz-tests applied to the shipped fonts. fz_face: coverage-guided, 16 workers, header selects options/source/queries. '
        'Non-trivial: the font was accepted, or rejected by a Graphite-table validation stage (hook H2 error code != 0), i.e. it got past the TrueType sanity checks. '
        'Distinct: sweep cases are distinct (offset,value) pairs by construction; fuzz inputs by input hash.')
ASSUME = ['sanitizers make memory errors / UB / leaks visible', 'a hang is a case exceeding 30 s (typical case: < 5 ms), confirmed by re-running alone']

SEED_FONTS_QUICK = 10
FUZZ_LIMIT_QUICK = 40


def seed_fonts(tier):
    fs = sorted(f for f in glob.glob(os.path.join(CORPUS, 'synth', '*.ttf')) if os.path.basename(f)[0] not in 'zf')
    ffs = sorted(glob.glob(os.path.join(CORPUS, 'synth', 'f*.ttf')))          # feature / language / name rich fonts
    zs = sorted(glob.glob(os.path.join(CORPUS, 'synth', 'z*.ttf')))          # LZ4-compressed Silf/Glat twins
    n = SEED_FONTS_QUICK if tier == 'quick' else 40
    # spread over the generated fonts (different Silf / Glat versions)
    step = max(1, len(fs) // n)
    ffs.sort(key=os.path.getsize)
    out = zs[:2 if tier == 'quick' else 8] + (ffs[:2] + ffs[-1:] if tier == 'quick' else ffs[:10]) + fs[::step][:n]      # two small ones and the one with most features
    out += [os.path.join(REPO, 'tests', 'fonts', 'small.ttf'), os.path.join(REPO, 'tests', 'fonts', 'tiny.ttf')]
    return out


def case_cmd(case):
    """replay command-line arguments of enum_face for a saved case"""
    b = bytes.fromhex(case['bytes'])
    off = int.from_bytes(b[0:4], 'little'); val = int.from_bytes(b[4:8], 'little')
    return ['one', case['font'], off, val, b[8], b[9], b[10]] + (['shape'] if case.get('shape') else [])


def replay_case(case):
    if case.get('kind') == 'bin':
        res = fuzzrun.replay_bin(PROP, 'fz_face', case['path'], report=PROP)
        if res and res[0] == PROP:
            raise Violation(res[1], case, '')
        return
    res, crash = run_enum('enum_face', case_cmd(case), timeout=200)
    if crash:
        if crash['kind'] == 'timeout' or 'HANG' in crash.get('stderr', ''):
            raise Violation('does-not-return', case, crash['stderr'][-800:])
        raise Violation('sanitizer:' + crash['kind'] + ':' + crash['summary'], case, crash['stderr'][-1500:])
    for label in (res or {}).get('fails', {}):
        if label.startswith(PROP + ':'):
            raise Violation(label[4:], case, '')


def replay_file(path):
    case = dict(kind='bin', path=path) if path.endswith('.bin') else json.load(open(path))['case']
    try:
        replay_case(case)
    except Violation as v:
        print('VIOLATION property=%s replay=%s label=%s' % (PROP, path, v.label))
        return 1
    print('replay: property held on', path)
    return 0


def handle(ctx, m, res, crash, font, shape=False):
    if crash and crash['kind'] != 'timeout' and len(ctx.rec.violations) >= 2:
        # two failing sweep jobs have been confirmed by replay already (each confirmation of a hang costs 3 x 30 s): count the rest
        m['classes']['sweep_further_failing_jobs_not_replayed'] = m['classes'].get('sweep_further_failing_jobs_not_replayed', 0) + 1
    elif crash and crash['kind'] != 'timeout':
        case = dict(crash['case'] or {}, font=font, shape=shape)
        if 'HANG' in crash['stderr']:
            ctx.report(Violation('does-not-return', case, crash['stderr'][-800:]), replay_case)
        else:
            ctx.report(Violation('sanitizer:' + crash['kind'] + ':' + crash['summary'], case, crash['stderr'][-1500:]), replay_case)
    elif crash:
        m['inconclusive'] += 1
    if res:
        m['evaluations'] += res['evaluations']
        m['classes']['sweep_loaded'] = m['classes'].get('sweep_loaded', 0) + res['loaded']
        m['classes']['sweep_deep_rejects'] = m['classes'].get('sweep_deep_rejects', 0) + res['deep_rejects']
        m['nt_count'] = m.get('nt_count', 0) + res['loaded'] + res['deep_rejects']
        for k, v in res['rejects'].items():
            m['rejects'][k] = m['rejects'].get(k, 0) + v
        for label, info in res['fails'].items():
            p, l = label.split(':', 1)
            if p == PROP:
                ctx.report(Violation(l, dict(info['first'], font=font, shape=shape), 'count=%d' % info['count']), replay_case)
            else:
                m['other'][label] = m['other'].get(label, 0) + info['count']


def main(tier, seed, workers):
    t0 = time.time()
    ctx = fw.Ctx(PROP, tier, seed, 0, 1, 3600)
    m = fw.merge([])
    m['rejects'] = {}
    for f in sorted(glob.glob(os.path.join(VERIF, 'replay', PROP, '*'))):
        try:
            replay_case(dict(kind='bin', path=f) if f.endswith('.bin') else json.load(open(f))['case'])
            ctx.rec.count('replay_files_passed')
        except Violation as v:
            ctx.report(v, replay_case)
    jobs = []
    for font in seed_fonts(tier):
        nparts = 4 if tier == 'quick' else 8
        for k in range(nparts):
            jobs.append(('sweep', font, ['sweep', font, k, nparts]))
    fuzzfiles = sorted(glob.glob(os.path.join(REPO, 'tests', 'fuzz-tests', '*', '*', '*.fuzz')))
    for ff in fuzzfiles:
        fontname = ff.split(os.sep)[-3] + '.ttf'
        font = os.path.join(REPO, 'tests', 'fonts', fontname)
        if not os.path.exists(font):
            continue
        if 'libfuzz-corpus' in ff:
            continue            # binary corpora of the repository's own libFuzzer harness, not offset,value lists
        jobs.append(('fuzzfile', font, ['fuzzfile', font, ff, 0, 1]))
    with ThreadPoolExecutor(max_workers=workers) as ex:
        results = list(ex.map(lambda j: (j, run_enum('enum_face', j[2], timeout=3000)), jobs))
    for (kind, font, args), (res, crash) in results:
        handle(ctx, m, res, crash, font)
        if res:
            m['classes'][kind + '_cases'] = m['classes'].get(kind + '_cases', 0) + res['evaluations']
    m['samples'].append(dict(engine='sweep', font='corpus/synth/000.ttf', offset=412, value='0x7FFF', width=2, opts=4, src=0))
    secs = 35 if tier == 'quick' else 600
    fz = fuzzrun.campaign(PROP, 'fz_face', os.path.join(CORPUS, 'fz_face'), secs, workers, seed, report=PROP, hdr=16)
    m['evaluations'] += fz['stats'].get('execs', 0)
    for k, v in fz['stats'].items():
        if k.startswith('other_'):
            m['other'][k[6:]] = m['other'].get(k[6:], 0) + v
        elif k.startswith('reject_'):
            m['rejects']['fz_' + k[7:]] = v
        else:
            m['classes']['fz_' + k] = v
    m['samples'] += [dict(engine='fz_face', **s) for s in fz['samples'][:3]]
    m['notes'] += fz['notes']
    for v in fz['violations']:
        if v['prop'] == PROP:
            m['violations'].append(dict(label=v['label'], detail=v['detail'][-600:], replay=v['replay']))
        else:
            m['other'][v['prop'] + ':' + v['label']] = m['other'].get(v['prop'] + ':' + v['label'], 0) + 1
    mm = fw.merge([dict(m, nontrivial=[], error=None), dict(ctx.rec.dump(), error=None)])
    mm['nontrivial'] = m.get('nt_count', 0) + len(fz['nontrivial'])
    if fz['stats'].get('execs', 0) < 1000:
        mm['errors'].append('fz_face campaign executed fewer than 1000 inputs')
    top = dict(sorted(m['rejects'].items(), key=lambda kv: -kv[1])[:40])
    fw.write_evidence(PROP, tier, seed, 'fault_enumeration', mm, RULE, time.time() - t0, ASSUME,
                      extra=dict(reject_stage_histogram=top, sweep_exhaustive_over='all (offset, boundary value) pairs of the listed seed fonts', fuzz_wall_s=round(fz['wall'], 1)))
    return fw.finish(PROP, mm, fw.load_known())
