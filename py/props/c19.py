"""C19  Line breaking and justification never corrupt the glyph stream.

Hypothesis: a segment (shipped or synthesised font, text with spaces, dir 0..7, with or without a gr_font) is kept alive
through grdrv's history command, cut into lines with gr_slot_linebreak_before (at cluster boundaries, or at any interior slots), and every line is
passed 1..3 times to gr_seg_justify (width in {-1, 0, natural x {0.5, 1, 2}, 1e6}, flags 0..3, first/last sub-range NULL
or slots of that line).  After every call: it returned (watchdog, confirmed), every line walked by next from its first
slot holds the same slots in the same order as before with prev the exact inverse, origins and the returned width are
finite, glyph ids are unchanged for fonts without justification passes; sanitizers stay silent through gr_seg_destroy."""
import os, sys, json, time, struct, glob, math
import framework as fw
from framework import Violation, Inconclusive
from driver import Driver, DriverCrash, DriverHang, shape_params, encode_text
import fonts, cases, sfnt

PROP = 'C19'
VARIANTS = ['asan-direct']
RULE = ('Hypothesis: (font, text <= 32 with spaces, dir 0..7, enc, ppm incl. a hinted font) -> segment; 1 synthesised font in 3 has line-end contextuals (Silf flags bit 0, lbGID); break positions: any subset of the cluster boundaries (2 cases in 3) or of ALL interior slots, also inside clusters and in front of attached slots (1 case in 3); per line 1..3 justify calls with generated '
        '(width, flags, font, pFirst <= pLast on that line or NULL). Oracle: line chains unchanged (same slots, same order, prev inverse, line start has no prev), finite origins and width, '
        'gids unchanged when the font has no justification pass, no sanitizer report, every call returns. Non-trivial: >= 2 lines and a justify on a non-first line, or the text direction '
        'differs from the font direction. Known finding KF2 (direction mismatch with >= 2 lines) excluded by construction and counted. Distinct by case JSON.')
ASSUME = ['pFirst/pLast are slots of the line being justified', 'a call exceeding the 8 s watchdog is re-run 3x alone (40 s limit, fresh process) before being reported as does-not-return']


def fl(h):
    return float.fromhex(h)


def font_info(font):
    """(has_justification_pass, line_end_flag, silf_dir) read from the Silf table by my own parser (uncompressed tables only)"""
    t = sfnt.parse(font)
    s = t.get(b'Silf')
    if not s or len(s) < 40:
        return None
    ver = struct.unpack('>I', s[:4])[0]
    if ver >= 0x00050000 and struct.unpack('>I', s[4:8])[0] >> 27:
        # compressed layout: version, (scheme << 27 | size), LZ4 block -> the whole table (reference decoder, not the library's)
        import lz4ref
        hdr = struct.unpack('>I', s[4:8])[0]
        try:
            s = bytes(lz4ref.decode(s[8:], hdr & 0x07FFFFFF)[1])
        except Exception:
            return None
        if len(s) < 40:
            return None
    off = struct.unpack('>I', s[(12 if ver >= 0x00030000 else 8):(16 if ver >= 0x00030000 else 12)])[0]
    p = off + (8 if ver >= 0x00030000 else 0)
    npass, isub, ipos, ijust, ibidi, flags = struct.unpack('>6B', s[p + 6:p + 12])
    njust = s[p + 19]
    q = p + 20 + 8 * njust
    direction = s[q + 4]
    return dict(justpass=ijust != ipos, flags=flags, dir=(direction - 1) & 0xFF, bidi=ibidi, npass=npass)


def boundaries(dump):
    """stream positions p (1..n-1) where a line may start: slot p is a base and no cluster spans the cut"""
    sl = dump['slots']
    n = len(sl)
    root = []
    for i, s in enumerate(sl):
        r, steps = i, 0
        while sl[r]['p'] >= 0 and steps < n:
            r = sl[r]['p']; steps += 1
        root.append(r)
    out = []
    for p in range(1, n):
        if sl[p]['p'] >= 0:
            continue
        if any(root[i] < p for i in range(p, n)) or any(root[i] >= p for i in range(p)):
            continue
        out.append(p)
    return out


def build_history(case, fid_placeholder=None):
    """-> (ops payload, list of expectation tags)"""
    tb = encode_text(case['text'], case.get('enc', 4))
    ops = b''
    n = 0
    nf = 0
    if case.get('ppm', 0) != 0:        # < 0: hinted font (shape_case.h make_any_font)
        ops += bytes([3]) + struct.pack('<f', case['ppm']); n += 1; nf = 1
    ops += bytes([1]) + struct.pack('<hhB', 0 if nf else -1, -1, 1) + shape_params(tb, enc=case.get('enc', 4), dir=case['dir'], ppm=0.0); n += 1
    tags = ['seg']
    for b in case['breaks']:
        ops += bytes([15]) + struct.pack('<HH', 0, b); n += 1
    ops += bytes([16]) + struct.pack('<H', 0); n += 1; tags.append('state')
    for j in case['justifies']:
        ops += bytes([14]) + struct.pack('<HHhdBhh', 0, j['start'], (0 if nf and j['font'] else -1), j['width'], j['flags'], j['first'], j['last']); n += 1
        tags.append('just')
    return struct.pack('<H', n) + ops, tags


def judge(case, drv):
    font = cases.font_bytes(case)
    info = font_info(font)
    fid = drv.put_font(font)
    payload, tags = build_history(case)
    req = b'H' + struct.pack('<IBB', fid, 0, case.get('opts', 0)) + payload
    try:
        r = drv.call(req, timeout=8 if not case.get('confirm_hang') else 40)
    except DriverCrash as e:
        raise Violation('sanitizer:' + e.kind + ':' + e.summary, case, e.stderr[-1500:])
    except DriverHang:
        if not case.get('confirm_hang'):
            raise fw.Hang(case)
        n = 1                        # the call above, alone in a fresh driver with the long limit, was the first confirmation
        for _ in range(2):
            d2 = Driver(timeout=40)
            try:
                f2 = d2.put_font(font)
                d2.call(b'H' + struct.pack('<IBB', f2, 0, case.get('opts', 0)) + payload, timeout=40)
            except DriverHang:
                n += 1
            except DriverCrash:
                pass
            finally:
                d2.kill()
        if n == 3:
            c2 = dict(case); c2.pop('confirm_hang', None)
            raise Violation('does-not-return', c2, 'gr_seg_justify history exceeded 40 s three times (alone, fresh process each) (typical: milliseconds)')
        raise Inconclusive()
    if 'error' in r or not r.get('face'):
        raise Inconclusive()
    obs = r['obs']
    if len(obs) != len(tags):
        raise Inconclusive()
    seg = obs[0]
    if not seg.get('seg'):
        return None
    nslots = seg['st']['n']
    starts = sorted(set([0] + [b for b in case['breaks'] if 0 < b < nslots]))
    expect = [list(range(a, b)) for a, b in zip(starts, starts[1:] + [nslots])]
    gids0 = obs[1]['gids']

    def check_lines(o, where):
        lines = o['lines']
        if len(lines) != len(expect):
            raise Inconclusive()
        for li, (ln, want) in enumerate(zip(lines, expect)):
            if ln['walk'] != want:
                raise Violation('line-chain-changed', case, '%s: line %d walk=%s expected=%s' % (where, li, ln['walk'], want))
            if not ln['prev_ok']:
                raise Violation('prev-not-inverse-of-next-in-line', case, '%s: line %d' % (where, li))
            if not ln['prev0']:
                raise Violation('line-start-has-a-prev', case, '%s: line %d' % (where, li))
            if not ln['finite']:
                raise Violation('origin-not-finite-after-justify', case, '%s: line %d' % (where, li))
    check_lines(obs[1], 'after linebreaks')
    for k, (o, j) in enumerate(zip(obs[2:], case['justifies'])):
        if o is None:
            raise Inconclusive()
        w = o['w']
        if isinstance(w, str) or not math.isfinite(float(w)):
            raise Violation('justify-returned-non-finite-width', case, 'call %d returned %r' % (k, w))
        check_lines(o, 'after justify call %d' % k)
        if info and not info['justpass'] and not (info['flags'] & 1) and o['gids'] != gids0:
            raise Violation('glyph-ids-changed-without-justification-pass', case, 'call %d' % k)
    return r, info, len(expect)


def replay_case(case):
    drv = Driver()
    try:
        try:
            judge(case, drv)
        except fw.Hang:
            # watchdog candidate: confirm alone with the long limit (three times) before calling it a violation
            drv.kill()
            drv = Driver()
            judge(dict(case, confirm_hang=True), drv)
    finally:
        drv.kill()


def is_kf2(case):
    """the open known finding KF2: text direction != font direction and the segment was cut into >= 2 lines"""
    if not case.get('breaks'):
        return False
    try:
        info = font_info(cases.font_bytes(case))
    except Exception:
        return False
    return info is not None and (case['dir'] & 1) != (info['dir'] & 1)


def replay_file(path):
    d = json.load(open(path))
    try:
        replay_case(d['case'])
    except Violation as v:
        if is_kf2(d['case']):
            f = [x for x in fw.load_known() if x.get('id') == 'KF2']
            print('KNOWN-FINDING: property=%s %s [KF2] (replay of %s: %s)' % (PROP, f[0]['what'] if f else 'direction mismatch with >= 2 lines', path, v.label))
            return 0
        print('VIOLATION property=%s replay=%s label=%s' % (PROP, path, v.label))
        return 1
    print('replay: property held on', path)
    return 0


def worker(ctx):
    from hypothesis import given, strategies as st
    drv = Driver()
    rec = ctx.rec
    names = cases.SHIPPED_ALL if ctx.thorough() else cases.SHIPPED_QUICK
    sup = cases.supported_map(drv, names)
    infos = {}

    def make(deco):
        @deco
        @given(st.data())
        def t(data):
            # every random choice is drawn up front (as selectors), so that data generation never depends on engine output
            base = data.draw(cases.case_strategy(names, sup, max_len=32))
            txt = list(base['text'])
            for _ in range(data.draw(st.integers(0, 4))):
                if txt:
                    txt.insert(data.draw(st.integers(0, len(txt))), 0x20)
            base['text'] = txt
            base['ppm'] = data.draw(st.sampled_from([0.0, 0.0, 20.0, 1000.0, -15.0]))
            if base['kind'] == 'spec' and data.draw(st.integers(0, 2)) == 0:
                # "line end contextuals" (Silf flags bit 0): justify brackets the line with two marker slots of glyph lbGID
                base['spec'] = dict(base['spec'], silf_flags=base['spec'].get('silf_flags', 0) | 1, lbgid=data.draw(st.integers(0, len(base['spec']['glyphs']) - 1)))
            bsel = data.draw(st.lists(st.integers(0, 999), max_size=4))
            any_slot = data.draw(st.integers(0, 2)) == 0 or bool(os.environ.get('C19_ANY_BREAK'))
            jsel = data.draw(st.lists(st.tuples(st.integers(0, 999), st.integers(0, 6), st.integers(0, 3), st.booleans(), st.integers(0, 2), st.integers(0, 999), st.integers(0, 999)), max_size=8))
            opts = data.draw(st.sampled_from([0, 2, 6]))
            if ctx.abort_chunk:
                return
            font = cases.font_bytes(base)
            key = base.get('font') or hash(font)
            if key not in infos:
                infos[key] = font_info(font)
            info = infos[key]
            fid = drv.put_font(font)
            try:
                first = cases.shape(drv, fid, base, src=0x80 if base['kind'] == 'shipped' else 0)
            except (DriverCrash, DriverHang):
                raise Inconclusive()
            if not first.get('seg') or first['dump']['n'] < 1:
                rec.case(no_segment=1)
                return
            dump = first['dump']
            n = dump['n']
            bnd = boundaries(dump)
            cluster_bnd = set(bnd)
            if any_slot and n > 1:
                bnd = list(range(1, n))          # the property says "at any interior slots": also inside clusters, in front of attached slots
            mismatch = info is not None and (base['dir'] & 1) != (info['dir'] & 1)
            breaks = sorted(set(bnd[x % len(bnd)] for x in bsel)) if bnd else []
            if mismatch and breaks and not os.environ.get('C19_NO_EXCLUDE'):
                # known finding KF2: text direction != font direction with >= 2 lines -- excluded by construction, counted
                rec.excluded['KF2:direction-mismatch-with-2+-lines'] = rec.excluded.get('KF2:direction-mismatch-with-2+-lines', 0) + 1
                breaks = []
            starts = [0] + breaks
            ends = breaks + [n]
            natural = abs(fl(dump['adv'][0])) or 100.0
            widths = [-1.0, 0.0, natural * 0.5, natural, natural * 2, 1e6, 37.5]
            justs = []
            for lsel, wsel, flags, usefont, sub, f1, f2 in jsel:
                li = lsel % len(starts)
                a, b = starts[li], ends[li]
                fp = lp = -1
                if sub == 0:
                    fp = a + f1 % (b - a); lp = fp + f2 % (b - fp)
                justs.append(dict(line=li, start=a, width=widths[wsel], flags=flags, font=usefont, first=fp, last=lp))
            justs.sort(key=lambda j: j['line'])
            case = dict(base, breaks=breaks, justifies=justs, opts=opts)
            try:
                res = judge(case, drv)
            except fw.Hang:
                ctx.hang(case)
                return
            except Violation:
                if is_kf2(case):           # reachable only if the exclusion above could not classify the font
                    ctx.known_hit('KF2')
                    return
                raise
            if res is None:
                rec.case(no_segment=1)
                return
            r, info, nlines = res
            nt = (nlines >= 2 and any(j['line'] > 0 for j in justs)) or (mismatch and bool(justs))
            rec.case(nontrivial_sig=json.dumps(case, sort_keys=True) if nt else None,
                     sample=dict(font=case.get('font', 'synthesised'), text=case['text'], dir=case['dir'], breaks=breaks, justifies=justs[:4]) if nt else None,
                     multi_line=nlines >= 2, justify_calls=len(justs), dir_mismatch=mismatch, dir_ge2=case['dir'] >= 2, with_font=case['ppm'] > 0, with_hinted_font=case['ppm'] < 0, sub_range=any(j['first'] >= 0 for j in justs),
                     font_has_just_pass=bool(info and info['justpass']), font_line_end_flag=bool(info and info['flags'] & 1), negative_width=any(j['width'] < 0 for j in justs),
                     break_inside_a_cluster=any(b not in cluster_bnd for b in breaks))
        return t

    ctx.run_hypothesis(make, ctx.n(16000, 300000) // ctx.nworkers + 1, replay_fn=replay_case)
    try:
        drv.stop()
    except DriverCrash as e:
        ctx.report(Violation('sanitizer-at-exit:' + e.kind + ':' + e.summary, dict(kind='exit'), e.stderr[-1500:]))


def main(tier, seed, workers):
    t0 = time.time()
    ctx = fw.Ctx(PROP, tier, seed, 0, 1, 3600)
    for f in sorted(glob.glob(os.path.join(fw.VERIF, 'replay', PROP, '*.json'))):
        c = json.load(open(f))
        try:
            replay_case(c['case'])
            ctx.rec.count('replay_files_passed')
        except Violation as v:
            if c.get('known') == 'KF2':
                ctx.known_hit('KF2')
            else:
                ctx.report(v, replay_case)
    pm = fw.run_workers('props.c19', PROP, tier, seed, workers, 50 if tier == 'quick' else 900)
    mm = fw.merge([dict(ctx.rec.dump(), error=None), dict(pm, nontrivial=sorted(pm['nontrivial']), error=None)])
    mm['errors'] = pm['errors']
    fw.write_evidence(PROP, tier, seed, 'exploration', mm, RULE, time.time() - t0, ASSUME)
    return fw.finish(PROP, mm, fw.load_known())
