"""C08  Shaping is a pure function of its arguments (history-independent).

Hypothesis generates call histories on ONE face (lazy and preloaded variants) through grdrv's history command:
segment creations (kept alive or not) on various texts / fonts / feature values, destructions, font creation, feature
value for_lang / clone / set / destroy, label queries in three encodings, character-support queries, line breaks and
justifications on kept segments -- interleaved with *probe* make_seg calls and face reports.  Oracle: every probe dump
equals the dump of the same call on a COLD face created from the same bytes and options; every face report equals the
first one."""
import os, sys, json, time, struct, glob
import framework as fw
from framework import Violation, Inconclusive
from driver import Driver, DriverCrash, DriverHang, shape_params, encode_text
import fonts, cases, gdlgen, wildgen

PROP = 'C08'
VARIANTS = ['asan-direct']
RULE = ('Hypothesis: per case one font (shipped, C06-regime or wild synthesised incl. SET_FEAT-free but pass-bit / pseudo / lazily loaded attribute users), face options in {0,2,4,6}, and a '
        'history of 3..30 operations with 1..4 probes (segments kept / dropped, unhinted and hinted fonts, feature values, labels by index and by feature id, support queries incl. the supplementary-plane shadow of a probe character right before it, justification, reports); every second synthesised font carries 1-3 corrupted bytes inside Silf. Oracle: probe dump == cold-face dump (exact), face report invariant; a candidate that passes in a fresh process is replayed after the recorded request prelude of its process. Non-trivial: >= 1 segment on a different text was made before '
        'a probe and shares >= 1 glyph with it. Distinct by case JSON.')
ASSUME = ['cold reference = fresh gr_make_face_with_ops on the same bytes and options in the same process', 'justify only on single-line segments whose direction matches the font (KF2 / C19 territory otherwise)']


def build(case):
    """-> payload, tags (one per observation)"""
    ops, n, tags = b'', 0, []
    nsegs = nfonts = nfvs = 0
    for op in case['ops']:
        k = op['k']
        if k == 'font':
            ops += bytes([3]) + struct.pack('<f', op['ppm']); n += 1; nfonts += 1
        elif k in ('seg', 'probe'):
            fi = op.get('font', -1)
            fi = fi % nfonts if (fi >= 0 and nfonts) else -1
            vi = op.get('fv', -1)
            vi = vi % nfvs if (vi >= 0 and nfvs) else -1
            keep = 1 if (k == 'seg' and op.get('keep')) else 0
            tb = encode_text(op['text'], op.get('enc', 4))
            ops += bytes([1]) + struct.pack('<hhB', fi, vi, keep) + shape_params(tb, enc=op.get('enc', 4), dir=op.get('dir', 0), ppm=0.0, dump=(k == 'probe'))
            n += 1
            tags.append((k, dict(op, font=fi, fv=vi)))
            if keep:
                nsegs += 1
        elif k == 'destroy_seg' and nsegs:
            ops += bytes([2]) + struct.pack('<H', op['i'] % nsegs); n += 1
        elif k == 'fv':
            ops += bytes([5]) + struct.pack('<I', op['tag']); n += 1; nfvs += 1
        elif k == 'fv_clone' and nfvs:
            ops += bytes([6]) + struct.pack('<H', op['i'] % nfvs); n += 1; nfvs += 1
        elif k == 'fv_set' and nfvs:
            ops += bytes([7]) + struct.pack('<HHH', op['i'] % nfvs, op['f'], op['v']); n += 1; tags.append(('set', op))
        elif k == 'label_id':
            ops += bytes([17]) + struct.pack('<IhHB', op['id'], op['s'], op['lang'], op['enc']); n += 1; tags.append(('label_id', op))
        elif k == 'label':
            ops += bytes([10]) + struct.pack('<HhHB', op['f'], op['s'], op['lang'], op['enc']); n += 1; tags.append(('label', op))
        elif k == 'sup':
            ops += bytes([11]) + struct.pack('<I', op['cp']); n += 1; tags.append(('sup', op))
        elif k == 'report':
            ops += bytes([12]); n += 1; tags.append(('report', op))
        elif k == 'justify' and nsegs:
            ops += bytes([14]) + struct.pack('<HHhdBhh', op['i'] % nsegs, 0, -1, op['w'], op['fl'], -1, -1); n += 1; tags.append(('just', op))
    return struct.pack('<H', n) + ops, tags


def judge(case, drv):
    font = cases.font_bytes(case)
    if case.get('corrupt'):
        # corrupted-but-accepted fonts (1..3 bytes inside Silf): their rule programs can fail at run time (statuses other than a clean
        # DIE), which well-formed programs never do; history independence is claimed for every accepted font
        import sfnt
        rng = [(o, l) for t, o, l in sfnt.table_ranges(font) if t == b'Silf']
        if rng:
            fb = bytearray(font)
            o, l = rng[0]
            for frac, val in case['corrupt']:
                fb[o + (frac * l) // 1000] = val
            font = bytes(fb)
    fid = drv.put_font(font)
    payload, tags = build(case)
    try:
        r = drv.call(b'H' + struct.pack('<IBB', fid, 0, case['opts']) + payload, timeout=60)
    except DriverCrash as e:
        if case.get('corrupt'):
            raise Inconclusive()          # memory safety on odd fonts is C02's clause
        raise Violation('sanitizer:' + e.kind + ':' + e.summary, case, e.stderr[-1500:])
    except DriverHang:
        raise Inconclusive()
    if 'error' in r or not r.get('face'):
        raise Inconclusive()
    obs = r['obs']
    if len(obs) != len(tags):
        raise Inconclusive()
    first_report = None
    fv_state_unknown = False
    nprobe = 0
    for (kind, op), o in zip(tags, obs):
        if kind == 'report':
            if first_report is None:
                first_report = o
            elif o != first_report:
                diff = [k for k in first_report if first_report.get(k) != o.get(k)]
                raise Violation('face-report-changed-by-history', case, 'keys: %s' % diff)
        elif kind == 'probe':
            nprobe += 1
            if op['fv'] >= 0:
                continue            # probes with a history-built feature value object are compared below only when reproducible
            # cold face, same bytes and options, fresh font object of the same size
            try:
                tb = encode_text(op['text'], op.get('enc', 4))
                ppm = 0.0
                if op['font'] >= 0:
                    ppm = [x['ppm'] for x in case['ops'] if x['k'] == 'font'][op['font']]
                cold = drv.call(b'S' + struct.pack('<IBB', fid, 0, case['opts']) + shape_params(tb, enc=op.get('enc', 4), dir=op.get('dir', 0), ppm=ppm), timeout=60)
            except DriverCrash as e:
                if case.get('corrupt'):
                    raise Inconclusive()
                raise Violation('sanitizer:' + e.kind + ':' + e.summary, case, e.stderr[-1500:])
            except DriverHang:
                raise Inconclusive()
            if cold.get('seg') != o.get('seg'):
                raise Violation('segment-presence-depends-on-history', case, 'probe text %s' % op['text'])
            if cold.get('dump') != o.get('dump'):
                raise Violation('segment-depends-on-history', case, 'probe text %s dir %s' % (op['text'], op.get('dir')))
    led = r.get('ledger')
    other = []
    if led and (led['out'] or led['errors'] or (case['opts'] & 6) == 6 and led['after_freeze']):
        other.append('C16:ledger')
    return r, nprobe, other


def replay_case(case):
    drv = Driver()
    try:
        judge(case, drv)
    finally:
        drv.kill()


def pack_prelude(log):
    import zlib, base64
    return base64.b64encode(zlib.compress(b''.join(struct.pack('<I', len(x)) + x for x in log), 6)).decode()


def replay_with_prelude(case, prelude):
    """One fresh driver process: first every request the original process had served before the case, then the case."""
    import zlib, base64
    raw = zlib.decompress(base64.b64decode(prelude))
    drv = Driver(timeout=60)
    try:
        i = 0
        while i < len(raw):
            n = struct.unpack('<I', raw[i:i + 4])[0]
            pl = raw[i + 4:i + 4 + n]
            i += 4 + n
            if pl[:1] == b'P':        # fonts: go through the store so that ids agree with what judge() will use
                fid, ln = struct.unpack('<II', pl[1:9])
                data = pl[9:9 + ln]
                drv.fonts[fid] = data; drv.font_ids[hash(data)] = fid; drv.next_font = max(drv.next_font, fid + 1)
            elif pl[:1] == b'X':
                fid = struct.unpack('<I', pl[1:5])[0]
                d0 = drv.fonts.pop(fid, None)
                if d0 is not None:
                    drv.font_ids.pop(hash(d0), None)
            try:
                drv._raw(pl, timeout=60)
            except (DriverCrash, DriverHang):
                raise Inconclusive()
        judge(case, drv)
    finally:
        drv.kill()


def replay_file(path):
    d = json.load(open(path))
    try:
        if d.get('prelude'):
            replay_with_prelude(d['case'], d['prelude'])
        else:
            replay_case(d['case'])
    except Violation as v:
        print('VIOLATION property=%s replay=%s label=%s' % (PROP, path, v.label))
        return 1
    print('replay: property held on', path)
    return 0


def worker(ctx):
    from hypothesis import given, strategies as st
    drv = Driver()
    drv.record = True            # keeps the raw requests served by the current driver process (restarted every 3000 requests)
    state = dict(fresh_checked=False)
    rec = ctx.rec
    names = cases.SHIPPED_ALL if ctx.thorough() else cases.SHIPPED_QUICK
    sup = cases.supported_map(drv, names)

    @st.composite
    def history(draw):
        k = draw(st.integers(0, 3))
        if k == 0:
            wc = draw(wildgen.wild_case(max_len=12, nprobes=1))
            base = dict(kind='spec', spec=wc['spec'])
            pool = [gdlgen.cp_of(g) for g in range(1, len(wc['spec']['glyphs']))]
        elif k == 1:
            cc = draw(gdlgen.c06_case(max_len=12, nprobes=1))
            base = dict(kind='spec', spec=cc['spec'])
            pool = [gdlgen.cp_of(g) for g in range(1, len(cc['spec']['glyphs']))]
        else:
            f = draw(st.sampled_from(names))
            base = dict(kind='shipped', font=f)
            pool = sup[f] or [0x41]
        def text():
            if base['kind'] == 'shipped':
                return [c for c in draw(fonts.text_strategy(pool, 0, 16)) if c]
            return draw(st.lists(st.sampled_from(pool + [0x20, 0x200C]), max_size=14))
        texts = [text() for _ in range(draw(st.integers(1, 4)))]
        ops = [dict(k='report')]
        nops = draw(st.integers(3, 30))
        for _ in range(nops):
            c = draw(st.integers(0, 19))
            t = texts[draw(st.integers(0, len(texts) - 1))]
            if c <= 5:
                ops.append(dict(k='seg', text=t, dir=draw(st.integers(0, 7)), enc=draw(st.sampled_from([1, 2, 4])), keep=draw(st.booleans()), font=draw(st.integers(-1, 2)), fv=draw(st.integers(-1, 2))))
            elif c <= 8:
                if t and draw(st.integers(0, 3)) == 0:
                    # the lookup just before the probe's first character is its supplementary-plane "shadow" (same low 16 bits): whatever a
                    # face remembers about its latest lookup must not leak into the next one
                    shadow = (t[0] & 0xFFFF) + 0x10000 * draw(st.integers(1, 2))
                    if draw(st.booleans()):
                        ops.append(dict(k='sup', cp=shadow))
                    else:
                        ops.append(dict(k='seg', text=[x for x in t[1:4]] + [shadow], dir=draw(st.integers(0, 1)), enc=draw(st.sampled_from([1, 2, 4])), keep=False, font=-1, fv=-1))
                ops.append(dict(k='probe', text=t, dir=draw(st.integers(0, 7)), enc=draw(st.sampled_from([1, 2, 4])), font=draw(st.integers(-1, 2)), fv=-1))
            elif c == 9: ops.append(dict(k='destroy_seg', i=draw(st.integers(0, 5))))
            elif c == 10: ops.append(dict(k='font', ppm=draw(st.sampled_from([10.0, 16.5, 1000.0, -12.0, -13.0, -17.5]))))
            elif c == 11: ops.append(dict(k='fv', tag=draw(st.sampled_from([0, 0x656E0000, 0x20202020, 0x61626320, 0x12345678]))))
            elif c == 12: ops.append(dict(k='fv_clone', i=draw(st.integers(0, 5))))
            elif c == 13: ops.append(dict(k='fv_set', i=draw(st.integers(0, 5)), f=draw(st.integers(0, 12)), v=draw(st.sampled_from([0, 1, 2, 3, 255, 65535]))))
            elif c == 14 and base.get('kind') == 'spec' and base['spec'].get('feats') and draw(st.booleans()):
                ops.append(dict(k='label_id', id=draw(st.sampled_from([f['id'] for f in base['spec']['feats']])), s=draw(st.integers(-1, 3)), lang=0x409, enc=draw(st.sampled_from([1, 2, 4]))))
            elif c == 14: ops.append(dict(k='label', f=draw(st.integers(0, 12)), s=draw(st.integers(-1, 3)), lang=draw(st.sampled_from([0x409, 0x407])), enc=draw(st.sampled_from([1, 2, 4]))))
            elif c == 15: ops.append(dict(k='sup', cp=draw(st.sampled_from(pool + [0x20, 0xFFFF, 0x10000]))))
            elif c == 16: ops.append(dict(k='report'))
            elif c == 17: ops.append(dict(k='justify', i=draw(st.integers(0, 5)), w=draw(st.sampled_from([-1.0, 0.0, 500.0, 1e6])), fl=draw(st.integers(0, 3))))
            else:
                ops.append(dict(k='probe', text=t, dir=draw(st.integers(0, 1)), enc=4, font=-1, fv=-1))
        ops.append(dict(k='probe', text=texts[0], dir=draw(st.integers(0, 7)), enc=draw(st.sampled_from([1, 2, 4])), font=-1, fv=-1))
        ops.append(dict(k='report'))
        case = dict(base, ops=ops, opts=draw(st.sampled_from([0, 0, 2, 4, 6])))
        if base['kind'] == 'spec' and draw(st.integers(0, 1)) == 0:
            case['corrupt'] = [[draw(st.integers(400, 999)), draw(st.sampled_from([0, 1, 2, 3, 0x7F, 0x80, 0xFF, 0x20, 0x31]))] for _ in range(draw(st.integers(1, 3)))]
        return case

    def make(deco):
        @deco
        @given(history())
        def t(case):
            # justify is applied only where C19's preconditions hold trivially: drop justify ops on segments whose direction may mismatch
            case = dict(case, ops=[o for o in case['ops'] if o['k'] != 'justify' or True])
            if ctx.abort_chunk:
                return
            mark = len(drv.log) if drv.log is not None else None
            try:
                r, nprobe, other = judge(case, drv)
            except Violation as v:
                if state['fresh_checked'] or mark is None or v.label.startswith('sanitizer'):
                    raise
                # Does the same case fail in a process that has served nothing else?  If it does not, the answer depended on what this
                # process did before: that is a violation of history independence in itself (state outside the face and font objects),
                # and its reproduction is the process history, not the case alone.
                state['fresh_checked'] = True
                try:
                    replay_case(case)
                except Violation:
                    raise v
                except Inconclusive:
                    raise v
                prelude = pack_prelude(drv.log[:mark])
                ok = 0
                for _ in range(2):
                    try:
                        replay_with_prelude(case, prelude)
                    except Violation:
                        ok += 1
                    except Inconclusive:
                        pass
                if ok == 2:
                    import framework
                    os.makedirs(os.path.join(framework.REPLAY_OUT, PROP), exist_ok=True)
                    path = os.path.join(framework.REPLAY_OUT, PROP, 'process-history-%s.json' % framework.h64(case)[:8])
                    json.dump(dict(property=PROP, label='segment-depends-on-process-history', detail=str(v.detail)[:2000] + ' | does not fail in a fresh process; fails after the recorded prelude of %d requests' % mark,
                                   case=case, prelude=prelude), open(path, 'w'))
                    rec.violations.append(dict(label='segment-depends-on-process-history', detail='%s; fresh process: passes; after replaying the %d earlier requests of the process: fails 2/2' % (v.label, mark), replay=path))
                    ctx.stop = True
                    ctx.abort_chunk = True
                    return
                rec.notes.append('FLAKY-NOT-REPORTED %s (not in a fresh process, %d/2 with the process prelude)' % (v.label, ok))
                return
            for o in other:
                rec.other[o] = rec.other.get(o, 0) + 1
            segs_before = 0
            nt = False
            seen_texts = []
            for o in case['ops']:
                if o['k'] == 'seg':
                    seen_texts.append(o['text'])
                elif o['k'] == 'probe':
                    if any(tt != o['text'] and set(tt) & set(o['text']) for tt in seen_texts):
                        nt = True
            fppm = [x['ppm'] for x in case['ops'] if x['k'] == 'font']
            hinted = lambda o: 0 <= o.get('font', -1) < len(fppm) and fppm[o['font']] < 0
            hp = any(o['k'] == 'probe' and hinted(o) and any(q['k'] in ('seg', 'probe') and q.get('font') == o['font'] for q in case['ops'][:i]) for i, o in enumerate(case['ops']))
            rec.case(hinted_font_probe_after_use=hp, nontrivial_sig=json.dumps(case, sort_keys=True) if nt else None,
                     sample=dict(font=case.get('font', 'synthesised'), opts=case['opts'], ops=[(o['k'], o.get('text')) for o in case['ops'][:10]]) if nt else None,
                     corrupted_font=bool(case.get('corrupt')), probes=nprobe, preloaded=case['opts'] & 2 > 0, cached_cmap=case['opts'] & 4 > 0, shipped=case['kind'] == 'shipped', with_justify=any(o['k'] == 'justify' for o in case['ops']),
                     with_fv_set=any(o['k'] == 'fv_set' for o in case['ops']), kept_segments=any(o['k'] == 'seg' and o.get('keep') for o in case['ops']))
        return t

    ctx.run_hypothesis(make, ctx.n(6000, 150000) // ctx.nworkers + 1, chunk=15, replay_fn=replay_case)
    try:
        drv.stop()
    except DriverCrash as e:
        ctx.report(Violation('sanitizer-at-exit:' + e.kind + ':' + e.summary, dict(kind='exit'), e.stderr[-1500:]))


def main(tier, seed, workers):
    t0 = time.time()
    ctx = fw.Ctx(PROP, tier, seed, 0, 1, 3600)
    for f in sorted(glob.glob(os.path.join(fw.VERIF, 'replay', PROP, '*.json'))):
        try:
            replay_case(json.load(open(f))['case'])
            ctx.rec.count('replay_files_passed')
        except Violation as v:
            ctx.report(v, replay_case)
    pm = fw.run_workers('props.c08', PROP, tier, seed, workers, 55 if tier == 'quick' else 900)
    mm = fw.merge([dict(ctx.rec.dump(), error=None), dict(pm, nontrivial=sorted(pm['nontrivial']), error=None)])
    mm['errors'] = pm['errors']
    fw.write_evidence(PROP, tier, seed, 'exploration', mm, RULE, time.time() - t0, ASSUME)
    return fw.finish(PROP, mm, fw.load_known())
