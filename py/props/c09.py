"""C09  A preloaded face and unhinted font can be shared by concurrent shapers.

mt_shape (ThreadSanitizer build of /repo/src + harness): per round a COLD gr_face_preloadAll face and one shared
gr_font; 2..8 threads released by a barrier, each running 5..40 generated jobs (gr_make_seg on texts from a pool shared
between the threads, all queries, dump, destroy; label / feature / support queries) with seeded yield/spin perturbations.
Oracles: any ThreadSanitizer report (happens-before race detection does not need the racy interleaving to occur);
the table-callback counter does not move after gr_make_face returned; every job's dump equals the single-threaded
dump of the same job on a second face made from the same bytes."""
import os, sys, json, time, glob
from concurrent.futures import ThreadPoolExecutor
import framework as fw
from framework import Violation, Inconclusive
from enumrun import run_enum
import fonts
from paths import CORPUS

PROP = 'C09'
VARIANTS = ['tsan-direct']
RULE = ('Seeded generator: rounds x (2..8 threads x 5..40 jobs), texts of 0..19 characters drawn with locality from the font\'s own cmap, 6 texts shared by all threads of a round, dir 0..7, shared font or NULL, '
        'feature settings, perturbation = 0..7 sched_yield + spin. The shared face is made by gr_make_face_with_ops (5 rounds in 8), the deprecated gr_make_face_with_seg_cache_and_ops (2 in 8) or a file-face constructor (1 in 8; no callback ledger there). Fonts: shipped (Padauk, Scheherazade, Awami_test with collision passes, general, charis) and synthesised. '
        'Non-trivial round: >= 2 jobs of different threads overlapped in time and >= 1 rule fired. distinct_nontrivial counts such rounds (each round is a distinct (seed, font, round) workload).')
ASSUME = ['ThreadSanitizer sees all accesses of the library and harness (both compiled with -fsanitize=thread); races inside uninstrumented libc calls would be missed', 'schedules are sampled, not enumerated']


def fonts_for(tier):
    names = ['Padauk.ttf', 'Scheherazadegr.ttf', 'Awami_test.ttf', 'general.ttf', 'PigLatinBenchmark_v3.ttf', 'charis_r_gr.ttf'] + (['Annapurnarc2.ttf', 'AwamiNastaliq-Regular.ttf', 'charis_fast.ttf'] if tier != 'quick' else [])
    out = [fonts.path(n) for n in names]
    out += sorted(glob.glob(os.path.join(CORPUS, 'synth', '*.ttf')))[:12 if tier == 'quick' else 60]
    return out


def run_job(seed, rounds, flist):
    return run_enum('mt_shape', [seed, rounds] + flist, variant='tsan-direct', timeout=3000, env_extra={'TSAN_OPTIONS': 'halt_on_error=1:exitcode=79:report_signal_unsafe=0'})


def replay_case(case):
    res, crash = run_job(case['seed'], case['rounds'], case['fonts'])
    judge(res, crash, case)


def judge(res, crash, case):
    if crash and crash['kind'] != 'timeout':
        err = crash['stderr']
        if 'ThreadSanitizer' in err:
            import re
            m = re.search(r'SUMMARY: ThreadSanitizer: ([a-z A-Z-]*?) (?:/|\(|<)', err) or re.search(r'WARNING: ThreadSanitizer: ([^\n(]*)', err)
            frames = re.findall(r'#\d+ (\S+) \S*/src/(\S+?):', err)[:3]
            raise Violation('tsan:' + (m.group(1).strip() if m else 'report'), case, 'frames: ' + ' < '.join(f[0] + ' ' + f[1] for f in frames) + '\n' + err[-2500:])
        raise Violation('crash:' + crash['kind'] + ':' + crash['summary'], case, err[-1500:])
    if crash:
        raise Inconclusive()
    if res['callbacks_after_construction']:
        raise Violation('table-callback-invoked-after-preloadAll-construction', case, str(res['callbacks_after_construction']))
    if res['dump_mismatches']:
        raise Violation('concurrent-segment-differs-from-sequential', case, json.dumps(res['first_mismatch']))


def replay_file(path):
    d = json.load(open(path))
    for _ in range(8):            # the schedule is fresh on every run: a racy workload gets 8 chances to show the race
        try:
            replay_case(d['case'])
        except Violation as v:
            print('VIOLATION property=%s replay=%s label=%s' % (PROP, path, v.label))
            return 1
    print('replay: property held on', path)
    return 0


def main(tier, seed, workers):
    t0 = time.time()
    ctx = fw.Ctx(PROP, tier, seed, 0, 1, 3600)
    m = fw.merge([])
    for f in sorted(glob.glob(os.path.join(fw.VERIF, 'replay', PROP, '*.json'))):
        try:
            replay_case(json.load(open(f))['case'])
            ctx.rec.count('replay_files_passed')
        except Violation as v:
            ctx.report(v, replay_case)
    flist = fonts_for(tier)
    rounds = 90 if tier == 'quick' else 400
    # one process per group of fonts; each process is itself multi-threaded (2..8), so use fewer processes than cores
    groups = [flist[i::max(1, workers // 3)] for i in range(max(1, workers // 3))]
    jobs = [(seed * 100 + k + 1, rounds, g) for k, g in enumerate(groups) if g]
    with ThreadPoolExecutor(max_workers=len(jobs)) as ex:
        results = list(ex.map(lambda j: (j, run_job(*j)), jobs))
    nt = 0
    for (s, r, g), (res, crash) in results:
        case = dict(seed=s, rounds=r, fonts=g)
        try:
            judge(res, crash, case)
        except Violation as v:
            # which accesses collide depends on the schedule: a ThreadSanitizer report is evidence by itself (both stacks are in it);
            # the replays (same seed, fresh schedule) have to reproduce a report once in up to 8 runs
            if v.label.startswith('tsan:') or v.label.startswith('concurrent-'):
                ctx.report(v, replay_case, tries=8, need=1, same=lambda a, b: a.split(':')[0] == b.split(':')[0])
            else:
                ctx.report(v, replay_case)
        except Inconclusive:
            m['inconclusive'] += 1
        if res:
            m['evaluations'] += res['evaluations']
            nt += res['nontrivial']
            for k in ('rounds', 'jobs_overlapping_in_time', 'jobs_with_rules_fired'):
                m['classes'][k] = m['classes'].get(k, 0) + res[k]
            for k, v in (res.get('rounds_by_constructor') or {}).items():
                m['classes']['rounds_shared_face_from_' + k] = m['classes'].get('rounds_shared_face_from_' + k, 0) + v
            if res.get('sample') and len(m['samples']) < 4:
                m['samples'].append(res['sample'])
    mm = fw.merge([dict(m, nontrivial=[], error=None), dict(ctx.rec.dump(), error=None)])
    mm['nontrivial'] = nt
    fw.write_evidence(PROP, tier, seed, 'exploration', mm, RULE, time.time() - t0, ASSUME)
    return fw.finish(PROP, mm, fw.load_known())
