"""C13  Characters map to the glyphs the cmap assigns, by either lookup path.

For every font: ALL 0x110000 code points (+ out-of-range probes) through DirectCmap, CachedCmap and an independent
OpenType reference (harness/cmap_sweep.h), plus gr_face_is_char_supported on both faces.  Fonts: every shipped font
(enum_cmap) and Hypothesis-generated well-formed format-4 / format-12 subtables (many segments, idRangeOffset arrays,
wrapping deltas, zeros in the glyph array, segments touching U+0000/U+FFFF, groups touching U+10000/U+10FFFF, BMP
groups in format 12, several platform/encoding records).  Single-character segments on a pass-free font check that the
initial glyph of a slot is the mapped glyph."""
import os, sys, json, time, struct, glob
import framework as fw
from framework import Violation, Inconclusive
from enumrun import run_enum
from driver import Driver, DriverCrash, DriverHang, shape_params, encode_text
import fontsynth as fs
import fonts
from paths import REPO

PROP = 'C13'
VARIANTS = ['asan-direct']
RULE = ('Per font: exhaustive over all code points 0..0x10FFFF and 6 out-of-range values, three lookups each (direct, cached, reference) + is_char_supported on both faces. '
        'Fonts: all 17 shipped fonts; Hypothesis-generated cmaps: 1-40 format-4 segments (delta or idRangeOffset mode, boundary-heavy ranges, optional mapped U+FFFF), '
        'optional format-12 subtable (groups in and above the BMP; sometimes the only subtable), 1-3 platform/encoding records in every preference order, optional Silf pseudo-glyph map of 1-11 entries; the pseudo fallback is judged against my own parser of the Silf table, never the library. Non-trivial font: >= 3 segments and '
        '(an idRangeOffset segment or a format-12 subtable). distinct_nontrivial counts distinct non-trivial fonts (by cmap bytes); evaluations counts code-point lookups.')
NGLYPHS = 12
BOUND = [0, 1, 2, 0x1F, 0x20, 0x7E, 0x7F, 0x80, 0xFF, 0x100, 0x101, 0x7FF, 0x800, 0xFFF, 0x1000, 0xD7FF, 0xD800, 0xDFFF, 0xE000, 0xFEFF, 0xFFFC, 0xFFFD, 0xFFFE]


def base_spec(raw_cmap, pseudos=()):
    n = NGLYPHS
    # a pass that never fires (class of glyph n-1 only, which no cmap maps to... any glyph is fine: the rule keeps the slot)
    return dict(glyphs=[dict(adv=500 + 10 * i, bbox=[0, 0, 400, 600], attrs={}) for i in range(n)], cmap={}, raw_cmap=raw_cmap, classes=[[n - 1]], ngattr=8,
                pseudos=[list(p) for p in pseudos], passes=[dict(pre=0, maxloop=2, rules=[dict(items=[0], actions=[dict(op='keep')])])], nsubst=1)


def build_cmap(c):
    """c: {'f4': [ {'pe': [p,e], 'segs': [[start,end,mode,arg]], } ], 'f12': {'pe':[p,e], 'groups': [[s,e,g]]} | None}"""
    subs = []
    for t in c['f4']:
        segs, garr = [], []
        for s, e, mode, arg in t['segs']:
            if mode == 'delta':
                segs.append((s, e, arg & 0xFFFF, None))
            else:
                segs.append((s, e, t.get('rdelta', 0) & 0xFFFF, len(garr)))
                garr += arg
        subs.append((t['pe'][0], t['pe'][1], fs.cmap4_subtable(segs, garr)))
    if c.get('f12'):
        subs.append((c['f12']['pe'][0], c['f12']['pe'][1], fs.cmap12_subtable([tuple(g) for g in c['f12']['groups']])))
    subs.sort(key=lambda x: (x[0], x[1]))
    return fs.cmap_table(subs)


def ref_lookup(c, cp):
    """Python twin of the reference (used for the single-character segment clause)"""
    order4 = [[3, 1], [0, 3], [0, 2], [0, 1], [0, 0]]
    t4 = None
    for pe in order4:
        for t in c['f4']:
            if t['pe'] == pe:
                t4 = t; break
        if t4: break
    if cp > 0xFFFF:
        if not c.get('f12'): return 0
        for s, e, g in c['f12']['groups']:
            if s <= cp <= e: return (g + cp - s) & 0xFFFF
        return 0
    if not t4: return 0
    segs = list(t4['segs'])
    if not segs or segs[-1][1] != 0xFFFF:
        segs.append([0xFFFF, 0xFFFF, 'delta', 1])
    for s, e, mode, arg in segs:
        if e >= cp:
            if s > cp: return 0
            if mode == 'delta': return (cp + arg) & 0xFFFF
            g = arg[cp - s]
            return (g + t4.get('rdelta', 0)) & 0xFFFF if g else 0
    return 0


def judge(case, drv):
    c = case['cmap']
    try:
        font = fs.build_font(base_spec(build_cmap(c), pseudos=c.get('pseudos', ())))
    except (ValueError, struct.error):
        raise Inconclusive()
    fid = drv.put_font(font)
    only = case.get('only', 0xFFFFFFFE)
    try:
        r = drv.call(b'M' + struct.pack('<II', fid, only), timeout=120)
    except DriverCrash as e:
        raise Violation('sanitizer:' + e.kind + ':' + e.summary, case, e.stderr[-1500:])
    except DriverHang:
        raise Inconclusive()
    finally:
        pass
    if 'error' in r:
        raise Inconclusive()
    for label, info in r['fails'].items():
        raise Violation(label, dict(case, only=info['first']) if only == 0xFFFFFFFE else case, 'first U+%04X count=%d' % (info['first'], info['count']))
    if r['loaded'] and case.get('chars'):
        for cp in case['chars']:
            want = ref_lookup(c, cp)
            if want == 0:
                want = dict((u, g) for u, g in reversed(c.get('pseudos', []))).get(cp, 0)       # the pseudo-glyph map is the fallback
            try:
                rs = drv.call(b'S' + struct.pack('<IBB', fid, 0, case.get('opts', 0)) + shape_params(encode_text([cp], 4), enc=4))
            except DriverCrash as e:
                raise Violation('sanitizer:' + e.kind + ':' + e.summary, dict(case, chars=[cp]), e.stderr[-1500:])
            if rs.get('seg') and rs['dump']['n'] == 1:
                g = rs['dump']['slots'][0]['g']
                if g != want and not (want >= NGLYPHS):
                    raise Violation('initial-slot-glyph-differs-from-cmap', dict(case, chars=[cp]), 'U+%04X engine gid=%d reference=%d' % (cp, g, want))
    if r['loaded'] and case.get('chars'):
        # the same characters inside ONE text: a lookup must not depend on the character looked up before it. Each character is
        # preceded by the code point that shares its low 16 bits in the other plane range and is then repeated (seeds S7-C13 and
        # S8-C08 were one-entry "same character as last time" memos keyed on 16 bits / left stale by a failed lookup).
        ok = lambda u: 0 < u <= 0x10FFFF and not 0xD800 <= u <= 0xDFFF
        seq = []
        for cp in case['chars']:
            if not ok(cp): continue
            al = cp + 0x10000 if cp < 0x10000 else cp & 0xFFFF
            seq += ([al] if ok(al) else []) + [cp, cp]
        seq = seq[:96]
        pseudo = dict((u, g) for u, g in reversed(c.get('pseudos', [])))
        wants = [ref_lookup(c, u) or pseudo.get(u, 0) for u in seq]
        if seq:
            try:
                rs = drv.call(b'S' + struct.pack('<IBB', fid, 0, case.get('opts', 0)) + shape_params(encode_text(seq, 4), enc=4))
            except DriverCrash as e:
                raise Violation('sanitizer:' + e.kind + ':' + e.summary, dict(case, text=seq), e.stderr[-1500:])
            if rs.get('seg') and rs['dump']['n'] == len(seq):
                for i, sl in enumerate(rs['dump']['slots']):
                    if sl['g'] != wants[i] and not (wants[i] >= NGLYPHS):
                        raise Violation('slot-glyph-in-text-differs-from-cmap', dict(case, text=seq),
                                        'slot %d U+%04X engine gid=%d reference=%d (previous character U+%04X)' % (i, seq[i], sl['g'], wants[i], seq[i - 1] if i else 0))
                r['text_slots_checked'] = len(seq)
    drv.drop_font(fid)
    return r


def judge_huge(drv, opts):
    """A format 12 subtable with more than 65 535 groups (valid: numGroups is a uint32; CheckCmapSubtable12 accepts up to 0x10000000).
    Seed S9-C13 searched it with 16-bit counters.  Single-code-point groups at U+10000 + 2i; probes sit around group indices 0, 2^15, 2^16 and
    the last group, their odd (unmapped) neighbours, and a few BMP letters; the clauses are those of every other C13 case."""
    n = 0x10000 + 40
    c = dict(f4=[dict(pe=[3, 1], segs=[[0x41, 0x44, 'delta', (1 - 0x41) & 0xFFFF]])],
             f12=dict(pe=[3, 10], groups=[[0x10000 + 2 * i, 0x10000 + 2 * i, 1 + i % (NGLYPHS - 1)] for i in range(n)]))
    idx = [0, 1, 39, 40, 41, 32767, 32768, 65534, 65535, 65536, 65537, n - 2, n - 1]
    chars = [0x41, 0x44, 0x45] + [0x10000 + 2 * i for i in idx] + [0x10000 + 2 * i + 1 for i in idx[::3]] + [0x10000 + 2 * n + 10]
    try:
        r = judge(dict(kind='synth', cmap=c, chars=chars, opts=opts, only=0x10000 + 2 * 65536), drv)
    except Violation as v:
        raise Violation(v.label, dict(kind='hugef12', opts=opts), str(v.detail)[:600])
    return r


def replay_case(case):
    if case.get('kind') == 'hugef12':
        drv = Driver()
        try:
            judge_huge(drv, case.get('opts', 0))
        finally:
            drv.kill()
        return
    if case.get('kind') == 'shipped':
        res, crash = run_enum('enum_cmap', [fonts.path(case['font'])], timeout=600)
        if crash:
            raise Violation('sanitizer:' + crash['kind'] + ':' + crash['summary'], case, crash['stderr'][-1500:])
        for f in res['fonts']:
            for label in f['fails']:
                raise Violation(label, case, json.dumps(f['fails'][label]))
        return
    drv = Driver()
    try:
        judge(case, drv)
    finally:
        drv.kill()


def replay_file(path):
    d = json.load(open(path))
    try:
        replay_case(d['case'])
    except Violation as v:
        print('VIOLATION property=%s replay=%s label=%s' % (PROP, path, v.label))
        return 1
    print('replay: property held on', path)
    return 0


def cmap_strategy():
    from hypothesis import strategies as st

    @st.composite
    def f4(draw, pe):
        nseg = draw(st.integers(1, 12)) if draw(st.integers(0, 4)) else draw(st.integers(13, 40))
        pts = set()
        for _ in range(nseg * 2):
            k = draw(st.integers(0, 3))
            pts.add(draw(st.sampled_from(BOUND)) if k == 0 else draw(st.integers(0, 0xFFFE)) if k == 1 else draw(st.integers(0, 0x400)))
        pts = sorted(pts)
        segs = []
        i = 0
        while i + 1 < len(pts):
            s, e = pts[i], pts[i + 1]
            if draw(st.integers(0, 4)) == 0:
                e = s                                   # single code point segment
                i += 1
            else:
                e = min(e, s + (24 if draw(st.integers(0, 5)) else 300))
                i += 2
            if segs and s <= segs[-1][1]:
                continue
            if draw(st.integers(0, 2)) == 0:
                arr = [draw(st.sampled_from([0, 0, 1, 2, 3, NGLYPHS - 1, NGLYPHS, 0x1234, 0xFFFF])) if draw(st.integers(0, 3)) else draw(st.integers(0, NGLYPHS - 1)) for _ in range(e - s + 1)]
                segs.append([s, e, 'range', arr])
            else:
                g0 = draw(st.sampled_from([1, 2, NGLYPHS - 1, 0, 0xFFFF, 0x8000])) if draw(st.integers(0, 2)) == 0 else draw(st.integers(0, NGLYPHS - 1))
                segs.append([s, e, 'delta', (g0 - s) & 0xFFFF])
        if draw(st.integers(0, 3)) == 0:
            lo = max((segs[-1][1] + 1) if segs else 0, 0xFFF0)
            if lo <= 0xFFFF:
                s = draw(st.integers(lo, 0xFFFF))
                if draw(st.booleans()):
                    segs.append([s, 0xFFFF, 'delta', (draw(st.integers(1, NGLYPHS - 1)) - s) & 0xFFFF])
                else:
                    segs.append([s, 0xFFFF, 'range', [draw(st.integers(0, NGLYPHS - 1)) for _ in range(0xFFFF - s + 1)]])
        return dict(pe=pe, segs=segs, rdelta=draw(st.sampled_from([0, 0, 1, 0xFFFF, 5])))

    @st.composite
    def f12(draw, pe):
        n = draw(st.integers(1, 12))
        pts = set()
        pool = [0, 1, 0x41, 0xFFFF, 0x10000, 0x10001, 0x1F600, 0x1FFFF, 0x20000, 0xE0000, 0x10FFFE, 0x10FFFF]
        for _ in range(2 * n):
            k = draw(st.integers(0, 2))
            pts.add(draw(st.sampled_from(pool)) if k == 0 else draw(st.integers(0x10000, 0x10FFFF)) if k == 1 else draw(st.integers(0, 0x10FFFF)))
        pts = sorted(pts)
        groups = []
        for i in range(0, len(pts) - 1, 2):
            s, e = pts[i], min(pts[i + 1], pts[i] + 5000)
            groups.append([s, e, draw(st.integers(0, NGLYPHS - 1)) if draw(st.booleans()) else draw(st.sampled_from([1, 0xFFF0, 0xFFFF, 0x10000]))])
        if not groups:
            groups = [[0x10000, 0x10010, 1]]
        return dict(pe=pe, groups=groups)

    @st.composite
    def cm(draw):
        pes = draw(st.lists(st.sampled_from([[3, 1], [0, 3], [0, 2], [0, 1], [0, 0]]), min_size=1, max_size=3, unique_by=lambda x: tuple(x)))
        c = dict(f4=[draw(f4(pe)) for pe in pes], f12=None)
        if draw(st.integers(0, 2)) == 0:
            c['f12'] = draw(f12(draw(st.sampled_from([[3, 10], [0, 4]]))))
            if draw(st.integers(0, 7)) == 0:
                c['f4'] = []          # a cmap with a UCS-4 subtable only (no BMP subtable): both lookup paths must treat it alike
        if draw(st.integers(0, 1)) == 0:
            # Silf pseudo-glyph map (sorted by code point, as the format asks): the fallback for characters the cmap does not map
            us = draw(st.lists(st.one_of(st.sampled_from(BOUND + [0x200C, 0x200D, 0x200E, 0x25CC, 0xFFFF, 0x10000, 0x1F600]), st.integers(1, 0x10FFFF), st.integers(0x20, 0x400)),
                               min_size=1, max_size=11, unique=True))
            c['pseudos'] = [[u, draw(st.integers(1, NGLYPHS - 1))] for u in sorted(us)]
        return c
    return cm()


def worker(ctx):
    from hypothesis import given, strategies as st
    ctx.same = lambda a, b: True
    drv = Driver(timeout=120)
    rec = ctx.rec

    def make(deco):
        @deco
        @given(cmap_strategy(), st.lists(st.one_of(st.sampled_from(BOUND + [0xFFFF, 0x10000, 0x10FFFF]), st.integers(0, 0x10FFFF)), max_size=6), st.sampled_from([0, 4, 6]))
        def t(c, chars, opts):
            own = []          # code points the generated cmap itself maps (segment / group ends): the in-text clause needs mapped characters
            for t4 in c['f4']:
                for sg in t4['segs'][:3]: own += [sg[0], sg[1]]
            for g in (c.get('f12') or {}).get('groups', [])[:3]: own += [g[0], g[1]]
            own = [u for u in dict.fromkeys(own) if 0 < u < 0xFFFF or 0xFFFF < u <= 0x10FFFF][:8]
            case = dict(kind='synth', cmap=c, chars=[x for x in chars if x] + [u for u, g in c.get('pseudos', [])][:6] + own, opts=opts)
            r = judge(case, drv)
            rec.count('slots_checked_inside_a_text', r.get('text_slots_checked', 0))
            nseg = sum(len(t['segs']) for t in c['f4'])
            rec.evaluations += r['evaluations'] - 1
            rec.case(nontrivial_sig=json.dumps(c, sort_keys=True) if r['loaded'] and r['nontrivial'] else None,
                     sample=dict(segments=nseg, format12=bool(c.get('f12')), records=[t['pe'] for t in c['f4']], mapped=r['mapped']) if r['loaded'] else None,
                     fonts_loaded=r['loaded'], fonts_rejected=not r['loaded'], with_format12=bool(c.get('f12')) and r['loaded'], ranged=r['ranged'] > 0, multi_record=len(c['f4']) > 1,
                     first_segment_at_0=any(t['segs'] and t['segs'][0][0] == 0 for t in c['f4']), maps_FFFF=any(t['segs'] and t['segs'][-1][1] == 0xFFFF for t in c['f4']))
        return t

    if ctx.k < 3:
        try:
            r = judge_huge(drv, [0, 4, 6][ctx.k])
            rec.case(nontrivial_sig='hugef12-%d' % ctx.k if r and r.get('loaded') else None, sample=None, format12_with_more_than_65535_groups=1 if r and r.get('loaded') else 0)
        except Violation as v:
            ctx.report(v, replay_case)
        except Inconclusive:
            pass
    ctx.run_hypothesis(make, ctx.n(2400, 60000) // ctx.nworkers + 1, chunk=10, replay_fn=replay_case)
    try:
        drv.stop()
    except DriverCrash as e:
        ctx.report(Violation('sanitizer-at-exit:' + e.kind + ':' + e.summary, dict(kind='exit'), e.stderr[-1500:]))


def main(tier, seed, workers):
    t0 = time.time()
    ctx = fw.Ctx(PROP, tier, seed, 0, 1, 3600)
    ctx.same = lambda a, b: True      # a swept font may fail several clauses at once: any C13 label on the same font / case confirms
    for f in sorted(glob.glob(os.path.join(fw.VERIF, 'replay', PROP, '*.json'))):
        try:
            replay_case(json.load(open(f))['case'])
            ctx.rec.count('replay_files_passed')
        except Violation as v:
            ctx.report(v, replay_case)
    m = fw.merge([])
    from concurrent.futures import ThreadPoolExecutor
    heavy = {'charis_r_gr.ttf', 'charis_fast.ttf'}          # ~1900 format-12 groups: linear scans make an exhaustive astral sweep take minutes
    def sweep(name):
        args = (['--stride', 61] if (name in heavy and tier == 'quick') else []) + [fonts.path(name)]
        return name, run_enum('enum_cmap', args, timeout=3000)
    with ThreadPoolExecutor(max_workers=workers) as ex:
        results = list(ex.map(sweep, fonts.SHIPPED))
    nts = 0
    for name, (res, crash) in results:
        if crash and crash['kind'] != 'timeout':
            ctx.report(Violation('sanitizer:' + crash['kind'] + ':' + crash['summary'], dict(kind='shipped', font=name, detail=crash['case']), crash['stderr'][-1500:]))
        if res:
            f = res['fonts'][0]
            m['evaluations'] += f['evaluations']
            m['classes']['shipped_fonts_swept'] = m['classes'].get('shipped_fonts_swept', 0) + f['loaded']
            if name in heavy and tier == 'quick':
                m['classes']['shipped_fonts_astral_strided'] = m['classes'].get('shipped_fonts_astral_strided', 0) + 1
            nts += f['nontrivial']
            for label, info in f['fails'].items():
                ctx.report(Violation(label, dict(kind='shipped', font=name), json.dumps(info)), replay_case)
    m['samples'].append(dict(font='Padauk.ttf', code_points='all 0..0x10FFFF', lookups='direct, cached, reference'))
    pm = fw.run_workers('props.c13', PROP, tier, seed, workers, 45 if tier == 'quick' else 900)
    mm = fw.merge([dict(m, nontrivial=[], error=None), dict(ctx.rec.dump(), error=None), dict(pm, nontrivial=sorted(pm['nontrivial']), error=None)])
    mm['errors'] = pm['errors']
    mm['nontrivial'] = nts + len(pm['nontrivial'])
    fw.write_evidence(PROP, tier, seed, 'exploration', mm, RULE, time.time() - t0,
                      ['reference lookup (harness/cmap_sweep.h, 40 lines from the OpenType cmap specification); generated subtables are well-formed (sorted, non-overlapping, data in record order)'],
                      extra=dict(exhaustive_subdomain='all 0x110000 code points for every font swept'), exhaustive=False)
    return fw.finish(PROP, mm, fw.load_known())
