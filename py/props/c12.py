"""C12  gr_make_seg consumes no more text than its contract allows.

Hypothesis + grdrv: NUL-terminated strings (well-formed and with ill-formed tails right before the NUL)
in the three encodings, in heap buffers that end exactly at the terminator, with nChars >= true length
(len, len+1, 2*len+3, code-unit count, 1000).  Oracle: ASan silent; gr_seg_n_cinfo == true length;
the segment equals the one obtained with the exact count.
"""
import os, sys, json, time, struct, glob
import framework as fw
from framework import Violation, Inconclusive
from driver import Driver, DriverCrash, DriverHang, shape_params, encode_text, blob
import fonts
import utfjudge_py

PROP = 'C12'
VARIANTS = ['asan-direct']
FONTS = ['Padauk.ttf', 'general.ttf', 'Scheherazadegr.ttf']
RULE = ('Hypothesis: scalar sequences of 0..40 characters (cmap-guided from shipped fonts, astral, unmapped), optionally followed by an '
        'ill-formed tail (truncated multi-unit sequence) right before the NUL, encoded as UTF-8/16/32 by my encoder, NUL appended, buffer '
        'allocated exactly to the terminator; nChars in {len, len+1, 2len+3, units, 1000}; dir 0..7. Oracle: no sanitizer report, '
        'n_cinfo == number of characters before the NUL, dump identical to the exact-count dump. Non-trivial: nChars > true length. '
        'Distinct by (font, enc, units, nChars, dir).')

TAILS = {1: [[], [0xC2], [0xE2], [0xE2, 0x82], [0xF0], [0xF0, 0x9F], [0xF0, 0x9F, 0x98], [0x80], [0xFF]],
         2: [[], [0xD800], [0xDBFF], [0xDC00]],
         4: [[], [0x110000], [0xFFFFFFFF]]}


def shape(drv, fid, tb, enc, dir, nchars):
    return drv.call(b'S' + struct.pack('<IBB', fid, 0x80, 0) + shape_params(tb, enc=enc, dir=dir, nchars=nchars, nul=True))


def judge(case, drv):
    fid = drv.put_font(fonts.load(case['font']))
    enc, txt, tail = case['enc'], case['text'], case['tail']
    tb = encode_text(txt + ([('raw', tail)] if tail else []), enc)
    true_len = len(txt) + (len(utfjudge_greedy(enc, tail)) if tail else 0)
    try:
        big = shape(drv, fid, tb, enc, case['dir'], case['nchars'])
        exact = shape(drv, fid, tb, enc, case['dir'], true_len)
    except DriverCrash as e:
        raise Violation('sanitizer:' + e.kind + ':' + e.summary, case, e.stderr[-1500:])
    except DriverHang:
        raise Inconclusive()
    if not big.get('face'):
        raise Inconclusive()
    if big['seg'] != exact['seg']:
        raise Violation('segment-presence-differs-from-exact-count', case, '')
    if not big['seg']:
        return None
    nc = big['dump']['nc']
    if not tail:
        if nc != len(txt):
            raise Violation('n_cinfo-ne-true-length', case, 'n_cinfo=%d true=%d nChars=%d' % (nc, len(txt), case['nchars']))
    else:
        # ill-formed tail: the number of U+FFFD it yields is policy dependent, bounded by its units
        if not (len(txt) + 1 <= nc <= len(txt) + len(tail)):
            raise Violation('n_cinfo-ne-true-length', case, 'n_cinfo=%d text=%d tail units=%d' % (nc, len(txt), len(tail)))
        if nc != exact['dump']['nc']:
            try:
                exact = shape(drv, fid, tb, enc, case['dir'], nc)
            except DriverCrash as e:
                raise Violation('sanitizer:' + e.kind + ':' + e.summary, case, e.stderr[-1500:])
    if [c[0] for c in big['dump']['ci']][:len(txt)] != txt:
        raise Violation('cinfo-unicode-ne-input', case, '')
    if big['dump'] != exact['dump']:
        raise Violation('segment-differs-from-exact-count', case, '')
    for p, l in big.get('labels', []):
        if p == 'C05' and l != 'n_cinfo-ne-nChars' and (l.startswith('cinfo-') or l.startswith('illformed')):
            raise Violation('decode:' + l, case, '')
    return big


def utfjudge_greedy(enc, tail):
    """greedy character segmentation of an ill-formed tail (same policy as harness/utfref.h)"""
    if enc != 1:
        return [[u] for u in tail]
    out, i = [], 0
    while i < len(tail):
        b = tail[i]
        want = 1 if b < 0xC0 else 2 if b < 0xE0 else 3 if b < 0xF0 else 4
        k = 1
        while k < want and i + k < len(tail) and 0x80 <= tail[i + k] <= 0xBF:
            k += 1
        out.append(tail[i:i + k]); i += k
    return out


def replay_case(case):
    drv = Driver()
    try:
        judge(case, drv)
    finally:
        drv.kill()


def replay_file(path):
    d = json.load(open(path))
    try:
        replay_case(d['case'])
    except Violation as v:
        print('VIOLATION property=%s replay=%s label=%s' % (PROP, path, v.label))
        return 1
    print('replay: property held on', path)
    return 0


def worker(ctx):
    from hypothesis import given, strategies as st
    drv = Driver()
    rec = ctx.rec
    sup = {f: fonts.supported(drv, f) for f in FONTS}
    scal = st.one_of(st.integers(1, 0xD7FF), st.integers(0xE000, 0x10FFFF))

    def make(deco):
        @deco
        @given(st.data())
        def t(data):
            f = data.draw(st.sampled_from(FONTS))
            enc = data.draw(st.sampled_from([1, 2, 4]))
            txt = [c for c in data.draw(fonts.text_strategy(sup[f], 0, ctx.n(24, 40))) if c]
            txt += data.draw(st.lists(scal, max_size=2))
            tail = data.draw(st.sampled_from(TAILS[enc])) if data.draw(st.integers(0, 3)) == 0 else []
            units = len(encode_text(txt + ([('raw', tail)] if tail else []), enc)) // enc
            n = len(txt) + len(utfjudge_greedy(enc, tail))
            nchars = data.draw(st.sampled_from([n, n + 1, n + 1, 2 * n + 3, units + 1, units + 7, 1000]))
            case = dict(font=f, enc=enc, text=txt, tail=tail, nchars=nchars, dir=data.draw(st.integers(0, 7)))
            judge(case, drv)
            rec.case(nontrivial_sig=(f, enc, tuple(txt), tuple(tail), nchars, case['dir']) if nchars > n else None, sample=case,
                     over_estimate=nchars > n, illformed_tail=bool(tail), empty_text=not txt, enc8=enc == 1, enc16=enc == 2, enc32=enc == 4)
        return t

    ctx.run_hypothesis(make, ctx.n(24000, 400000) // ctx.nworkers + 1, replay_fn=replay_case)
    try:
        drv.stop()
    except DriverCrash as e:
        ctx.report(Violation('sanitizer-at-exit:' + e.kind + ':' + e.summary, dict(kind='exit'), e.stderr[-1500:]))


def main(tier, seed, workers):
    t0 = time.time()
    ctx = fw.Ctx(PROP, tier, seed, 0, 1, 3600)
    for f in sorted(glob.glob(os.path.join(fw.VERIF, 'replay', PROP, '*.json'))):
        try:
            replay_case(json.load(open(f))['case'])
            ctx.rec.count('replay_files_passed')
        except Violation as v:
            ctx.report(v, replay_case)
    pm = fw.run_workers('props.c12', PROP, tier, seed, workers, 40 if tier == 'quick' else 600)
    mm = fw.merge([dict(ctx.rec.dump(), error=None), dict(pm, nontrivial=sorted(pm['nontrivial']), error=None)])
    mm['errors'] = pm['errors']
    fw.write_evidence(PROP, tier, seed, 'exploration', mm, RULE, time.time() - t0,
                      ['ASan red zone directly after the NUL of an exact-size heap buffer', 'contract = include/graphite2/Segment.h (gr_make_seg nChars) and doc/calling.adoc'])
    return fw.finish(PROP, mm, fw.load_known())
