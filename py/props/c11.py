"""C11  UTF-8/16/32 text is decoded exactly and never read past its end.

(1) enum_utf: exhaustive over all byte strings of length <= 3 and structured longer ones, all single
    UTF-16 units and boundary pairs, all UTF-32 values, in exact-size buffers, judged by utfjudge.h.
(2) Hypothesis + grdrv: the same scalar sequence in three encodings gives identical segments apart
    from gr_cinfo_base (= my encoder's offsets); ill-formed sequences shape as U+FFFD and do not derail
    the characters after them (policy-independent per-char-info judgement in seginv.h/utfref.h).
"""
import os, sys, json, time, struct, glob
from concurrent.futures import ThreadPoolExecutor
import framework as fw
from framework import Violation, Inconclusive
from enumrun import run_enum
from driver import Driver, DriverCrash, DriverHang, shape_params, encode_text, unit_offsets, blob
import fonts

PROP = 'C11'
VARIANTS = ['asan-direct']
FONTS = ['Padauk.ttf', 'Scheherazadegr.ttf', 'general.ttf', 'charis_r_gr.ttf', 'Awami_test.ttf']
RULE = ('enum_utf: ALL byte strings of length 0..3 as UTF-8 (exhaustive, each also NUL-terminated with buffer_end=NULL), strings of '
        'length 4..7(8) over 27/9 boundary bytes, all single UTF-16 units, all (unit x 16 boundary units) pairs in both orders, '
        'length 3..6 over 9 boundary units, every UTF-32 value 0..0x110100 and boundary strings; end of text = end of heap block (ASan); every call is made twice, with and without pError (same reads, same count); '
        'oracle utfjudge.h written from Unicode Table 3-7. Equivalence/derailing: Hypothesis scalar sequences (cmap-guided, astral, '
        'unmapped) x shipped fonts x dir, shaped as UTF-8/16/32; and W1.X.W2 with X ill-formed. Non-trivial: enumerated string contains '
        'a non-ASCII / surrogate / out-of-range unit; equivalence case has a multi-unit character; derail case has an ill-formed X. '
        'Distinct by unit string (enumerator: each enumerated once) or by (font,text,dir).')


def strip_base(dump):
    d = json.loads(json.dumps(dump))
    for c in d['ci']:
        c[1] = 0
    return d


def shape(drv, fid, text_bytes, enc, dir, nchars=-1, ppm=0.0):
    return drv.call(b'S' + struct.pack('<IBB', fid, 0x80, 0) + shape_params(text_bytes, enc=enc, dir=dir, nchars=nchars, ppm=ppm))


def judge_equiv(case, drv):
    data = fonts.load(case['font'])
    fid = drv.put_font(data)
    cps = case['text']
    dumps = {}
    try:
        for enc in (1, 2, 4):
            r = shape(drv, fid, encode_text(cps, enc), enc, case['dir'], nchars=len(cps), ppm=case.get('ppm', 0.0))
            if not r.get('face'):
                raise Inconclusive()
            for p, l in r.get('labels', []):
                if p == 'C05' and (l.startswith('cinfo-') or l.startswith('illformed') or l == 'n_cinfo-ne-nChars' or l == 'first-cinfo-base-not-0'):
                    raise Violation('decode:' + l, case, 'enc=%d' % enc)
            if not r['seg']:
                dumps[enc] = None
                continue
            d = r['dump']
            offs = unit_offsets(cps, enc)
            if [c[1] for c in d['ci']] != offs:
                raise Violation('cinfo-base-ne-encoder-offsets', case, 'enc=%d got=%s want=%s' % (enc, [c[1] for c in d['ci']], offs))
            if [c[0] for c in d['ci']] != cps:
                raise Violation('cinfo-unicode-ne-input', case, 'enc=%d' % enc)
            dumps[enc] = strip_base(d)
    except DriverCrash as e:
        raise Violation('sanitizer:' + e.kind + ':' + e.summary, case, e.stderr[-1500:])
    except DriverHang:
        raise Inconclusive()
    if not (dumps[1] == dumps[2] == dumps[4]):
        raise Violation('segments-differ-across-encodings', case, '')
    return dumps[4]


def judge_derail(case, drv):
    data = fonts.load(case['font'])
    fid = drv.put_font(data)
    enc = case['enc']
    w1, x, w2 = case['w1'], case['x'], case['w2']
    tb = encode_text(w1 + [('raw', x)] + w2, enc)
    try:
        r = shape(drv, fid, tb, enc, case['dir'])
    except DriverCrash as e:
        raise Violation('sanitizer:' + e.kind + ':' + e.summary, case, e.stderr[-1500:])
    except DriverHang:
        raise Inconclusive()
    if not r.get('face'):
        raise Inconclusive()
    for p, l in r.get('labels', []):
        if p == 'C05' and (l.startswith('cinfo-') or l.startswith('illformed') or l == 'n_cinfo-ne-nChars' or l == 'first-cinfo-base-not-0'):
            raise Violation('decode:' + l, case, '')
    if not r['seg']:
        return None
    ci = r['dump']['ci']
    got = [c[0] for c in ci]
    if got[:len(w1)] != w1:
        raise Violation('prefix-before-illformed-wrong', case, str(got))
    units = len(tb) // enc
    # if the reported characters reach the start of W2, the rest must be exactly W2 (not derailed)
    w2_start = units - len(encode_text(w2, enc)) // enc
    bases = [c[1] for c in ci]
    if w2 and w2_start in bases:
        k = bases.index(w2_start)
        tail = got[k:]
        if tail != w2[:len(tail)]:
            raise Violation('characters-after-illformed-derailed', case, str(got))
    mid = got[len(w1):]
    if x and not any(c == 0xFFFD for c in mid) and not case.get('x_has_wf'):
        raise Violation('illformed-not-shaped-as-FFFD', case, str(got))
    return r


def replay_case(case):
    drv = Driver()
    try:
        if case.get('kind') == 'equiv':
            judge_equiv(case, drv)
        elif case.get('kind') == 'derail':
            judge_derail(case, drv)
        elif case.get('kind', '').startswith('count'):
            judge_count(case, drv)
    finally:
        drv.kill()


def judge_count(case, drv):
    """Replay of an enumerator case through grdrv; re-judged by the enumerator's own oracle is not
    possible from Python, so the replay re-runs the single string through enum-equivalent logic:
    here we only need 'does it still trip the sanitizer / disagree', so we call the count command and
    apply the Python port of the oracle."""
    import utfjudge_py
    enc = {'count8': 1, 'count16': 2, 'count32': 4}[case['kind']]
    data = bytes.fromhex(case['bytes'])
    mode = int(case.get('x', 0))
    try:
        r = drv.call(b'U' + bytes([enc, mode]) + blob(data))
    except DriverCrash as e:
        raise Violation('sanitizer:' + e.kind + ':' + e.summary, case, e.stderr[-1500:])
    if 'error' in r:
        raise Inconclusive()
    eo = r['err'] // enc if r['err'] >= 0 else -1
    l = utfjudge_py.judge(enc, data, mode == 0, r['count'], eo)
    if l:
        raise Violation(l, case, str(r))
    if r.get('count_noerr', r['count']) != r['count']:
        raise Violation('count-depends-on-whether-pError-is-given', case, str(r))


def replay_file(path):
    d = json.load(open(path))
    try:
        replay_case(d['case'])
    except Violation as v:
        print('VIOLATION property=%s replay=%s label=%s' % (PROP, path, v.label))
        return 1
    print('replay: property held on', path)
    return 0


def worker(ctx):
    from hypothesis import given, strategies as st
    drv = Driver()
    rec = ctx.rec
    font_names = FONTS if ctx.thorough() else FONTS[:3]
    sup = {}
    for f in font_names:
        sup[f] = fonts.supported(drv, f)
    scal = st.one_of(st.integers(1, 0xD7FF), st.integers(0xE000, 0x10FFFF))

    def make_equiv(deco):
        @deco
        @given(st.data())
        def t(data):
            f = data.draw(st.sampled_from(font_names))
            txt = data.draw(fonts.text_strategy(sup[f], 0, ctx.n(16, 40)))
            txt = [c for c in txt if c != 0]
            extra = data.draw(st.lists(scal, max_size=3))
            pos = data.draw(st.integers(0, len(txt)))
            txt = txt[:pos] + extra + txt[pos:]
            case = dict(kind='equiv', font=f, text=txt, dir=data.draw(st.integers(0, 7)), ppm=data.draw(st.sampled_from([0.0, 0.0, 12.0])))
            d = judge_equiv(case, drv)
            multi = any(c >= 0x80 for c in txt)
            rec.case(nontrivial_sig=('e', f, tuple(txt), case['dir']) if multi else None, sample=case, equiv=1, equiv_astral=any(c > 0xFFFF for c in txt), equiv_null_seg=d is None)
        return t

    ill8 = st.one_of(
        st.sampled_from([[0x80], [0xBF], [0xC0, 0x80], [0xC1, 0xBF], [0xE0, 0x80, 0x80], [0xE0, 0x9F, 0xBF], [0xF0, 0x80, 0x80, 0x80], [0xF0, 0x8F, 0xBF, 0xBF],
                         [0xF4, 0x90, 0x80, 0x80], [0xF5, 0x80, 0x80, 0x80], [0xF8, 0x88, 0x80, 0x80], [0xFF], [0xFE], [0xC2], [0xE2, 0x82], [0xF0, 0x9F, 0x98],
                         [0xE2], [0xF0], [0xF0, 0x9F], [0x80, 0x80, 0x80], [0xE2, 0x82, 0xC2], [0xED, 0xA0, 0x80], [0xED, 0xBF, 0xBF]]),
        st.lists(st.integers(0x80, 0xFF), min_size=1, max_size=4))
    ill16 = st.sampled_from([[0xD800], [0xDBFF], [0xDC00], [0xDFFF], [0xDC00, 0xD800], [0xD800, 0xD800], [0xDFFF, 0xDFFF]])
    ill32 = st.sampled_from([[0x110000], [0x7FFFFFFF], [0x80000000], [0xFFFFFFFF], [0xD800], [0xDFFF], [0x110000, 0xFFFFFFFF]])

    def make_derail(deco):
        @deco
        @given(st.data())
        def t(data):
            f = data.draw(st.sampled_from(font_names))
            enc = data.draw(st.sampled_from([1, 2, 4]))
            w1 = [c for c in data.draw(fonts.text_strategy(sup[f], 0, 6)) if c]
            w2 = [c for c in data.draw(fonts.text_strategy(sup[f], 1, 6)) if c] or [0x41]
            x = data.draw({1: ill8, 2: ill16, 4: ill32}[enc])
            if enc == 2 and x[-1] >= 0xD800 and x[-1] <= 0xDBFF and w2:
                # a trailing high surrogate would pair up with a following low surrogate only; W2 starts with a scalar's first unit
                pass
            # does X (together with nothing else) contain a well-formed sequence?  (only relevant for random byte lists)
            x_has_wf = False
            if enc == 1:
                try:
                    import utfjudge_py
                    x_has_wf = utfjudge_py.contains_wf8(bytes(x))
                except ImportError:
                    x_has_wf = True
            sur = (enc == 1 and len(x) >= 3 and x[0] == 0xED and x[1] >= 0xA0) or (enc == 4 and any(0xD800 <= u <= 0xDFFF for u in x))
            case = dict(kind='derail', font=f, enc=enc, w1=w1, x=x, w2=w2, dir=data.draw(st.integers(0, 7)), x_has_wf=bool(x_has_wf or sur))
            judge_derail(case, drv)
            rec.case(nontrivial_sig=('d', f, enc, tuple(w1), tuple(x), tuple(w2)), sample=case, derail=1, derail_surrogate_abstain=sur)
        return t

    n = ctx.n(16000, 200000) // ctx.nworkers + 1
    ctx.run_hypothesis(make_equiv, n, replay_fn=replay_case, share=0.5)
    ctx.run_hypothesis(make_derail, n, replay_fn=replay_case)
    try:
        drv.stop()
    except DriverCrash as e:
        ctx.report(Violation('sanitizer-at-exit:' + e.kind + ':' + e.summary, dict(kind='exit'), e.stderr[-1500:]))


def main(tier, seed, workers):
    t0 = time.time()
    ctx = fw.Ctx(PROP, tier, seed, 0, 1, 3600)
    m = fw.merge([])
    for f in sorted(glob.glob(os.path.join(fw.VERIF, 'replay', PROP, '*.json'))):
        try:
            replay_case(json.load(open(f))['case'])
            m['classes']['replay_files_passed'] = m['classes'].get('replay_files_passed', 0) + 1
        except Violation as v:
            ctx.report(v, replay_case)
    level = 1 if tier == 'thorough' else 0
    nparts = workers
    with ThreadPoolExecutor(max_workers=workers) as ex:
        results = list(ex.map(lambda k: run_enum('enum_utf', [k, nparts, level], timeout=3000), range(nparts)))
    enum_nt = 0
    complete = True
    for res, crash in results:
        if crash and crash['kind'] != 'timeout':
            complete = False
            ctx.report(Violation('sanitizer:' + crash['kind'] + ':' + crash['summary'], crash['case'] or dict(kind='unknown'), crash['stderr'][-1500:]), replay_case)
        elif crash:
            complete = False
            m['inconclusive'] += 1
        if res:
            m['evaluations'] += res['evaluations']
            enum_nt += res['nontrivial']
            for k in ('illformed', 'tail_truncated', 'with_nul', 'exhaustive_cases'):
                m['classes']['enum_' + k] = m['classes'].get('enum_' + k, 0) + res[k]
            for label, info in res['fails'].items():
                ctx.report(Violation(label, info['first'], 'count=%d' % info['count']), replay_case)
    m['samples'] += [dict(kind='count8', bytes='e28241', x=0), dict(kind='count16', bytes='00d841dc', x=0), dict(kind='count8', bytes='f09f9800', x=1)]
    pm = fw.run_workers('props.c11', PROP, tier, seed, workers, 45 if tier == 'quick' else 600)
    mm = fw.merge([dict(m, nontrivial=[]), dict(ctx.rec.dump(), error=None), dict(pm, nontrivial=sorted(pm['nontrivial']), error=None)])
    mm['errors'] = pm['errors']
    mm['nontrivial'] = enum_nt + len(pm['nontrivial'])
    fw.write_evidence(PROP, tier, seed, 'exploration', mm, RULE, time.time() - t0,
                      ['ASan red zones on exact-size heap buffers', 'oracle = Unicode Table 3-7 classifier (harness/utfref.h, utfjudge.h); surrogate code points in UTF-8/UTF-32 treated as unspecified (DESIGN N1)'],
                      extra=dict(exhaustive_subdomain='all byte strings of length <= 3 as UTF-8 (bounded and NUL-terminated modes), all single UTF-16 units, all UTF-32 values <= 0x110100'),
                      exhaustive=complete)
    return fw.finish(PROP, mm, fw.load_known())
