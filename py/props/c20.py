"""C20  Tag/string conversions honour their documented buffer contracts.

Engines: (1) enum_tag -- exhaustive over all C strings of length 0..2, structured 3..8, boundary and
random tags, each in an exact-size heap buffer under ASan, against a byte-exact reference;
(2) Hypothesis + grdrv -- space- vs zero-padded tags at every tag-taking entry point
(gr_face_find_fref, gr_face_featureval_for_lang, gr_make_seg script, gr_face_info) on synthesised
fonts whose feature ids / language tags / script tags are short.
"""
import os, sys, json, time, struct
import framework as fw
from framework import Violation
from enumrun import run_enum
from driver import Driver, DriverCrash, DriverHang

PROP = 'C20'
VARIANTS = ['asan-direct']
RULE = ('enum_tag: ALL C strings of length 0..2 over the 255 non-NUL byte values (exhaustive), all strings of length 3..4 over 7 '
        'boundary bytes and 5..8 over 4 boundary bytes, 65536 tags with every byte from a 16-value boundary set, plus seeded random '
        'tags/strings; every argument lives in an exact-size heap buffer (ASan). Oracle: big-endian of first min(4,len) bytes as '
        'unsigned, zero padded; exactly 4 bytes written; both round trips. Padding clause: Hypothesis-generated fonts with short '
        'feature/language/script tags queried with zero- and space-padded forms. Non-trivial: string length != 4 (padding or '
        'truncation involved), any tag_to_str case, any padded-tag query that selects a non-default object; distinct by argument bytes.')


def ref_tag(b):
    t = 0
    for i in range(4):
        t = (t << 8) | (b[i] if i < len(b) else 0)
    return t


def judge_case(case, drv):
    """Re-judge one saved case through grdrv with the Python reference.  Raises Violation."""
    kind = case.get('kind')
    data = bytes.fromhex(case.get('bytes', ''))
    try:
        if kind == 'str_to_tag':
            r = drv.call(b'T' + bytes([0]) + struct.pack('<I', len(data)) + data)
            if r['tag'] != ref_tag(data):
                raise Violation('str_to_tag-wrong-value', case, 'got %#x want %#x' % (r['tag'], ref_tag(data)))
            if len(data) == 4:
                r2 = drv.call(b'T' + bytes([1]) + struct.pack('<IB', r['tag'], 0x55))
                if bytes.fromhex(r2['bytes']) != data:
                    raise Violation('roundtrip-str-tag-str', case, r2['bytes'])
        elif kind == 'tag_to_str':
            tag = struct.unpack('>I', data)[0]
            for fill in (0x55, 0xAA):
                r = drv.call(b'T' + bytes([1]) + struct.pack('<IB', tag, fill))
                if bytes.fromhex(r['bytes']) != data:
                    raise Violation('tag_to_str-wrong-bytes', case, r['bytes'])
                r = drv.call(b'T' + bytes([2]) + struct.pack('<IB', tag, fill))
                buf = bytes.fromhex(r['buf'])
                if buf[:4] != bytes([fill]) * 4 or buf[8:] != bytes([fill]) * 8:
                    raise Violation('tag_to_str-writes-outside-4-bytes', case, r['buf'])
                if buf[4:8] != data:
                    raise Violation('tag_to_str-wrong-bytes', case, r['buf'])
        elif kind == 'padding':
            import props.c20_padding as pad
            pad.judge(case, drv)
    except DriverCrash as e:
        raise Violation('sanitizer:' + e.kind + ':' + e.summary, case, e.stderr[-1500:])
    except DriverHang:
        raise fw.Inconclusive()


def replay_case(case):
    drv = Driver()
    try:
        judge_case(case, drv)
    finally:
        drv.kill()


def replay_file(path):
    d = json.load(open(path))
    try:
        replay_case(d['case'])
    except Violation as v:
        print('VIOLATION property=%s replay=%s label=%s' % (PROP, path, v.label))
        return 1
    print('replay: property held on', path)
    return 0


def worker(ctx):
    try:
        import props.c20_padding as pad
    except ImportError:
        return
    pad.worker(ctx)


def main(tier, seed, workers):
    t0 = time.time()
    ctx = fw.Ctx(PROP, tier, seed, 0, 1, 3600)
    m = fw.merge([])
    # regression tier: committed replay files
    import glob
    for f in sorted(glob.glob(os.path.join(fw.VERIF, 'replay', PROP, '*.json'))):
        case = json.load(open(f))['case']
        try:
            replay_case(case)
            m['classes']['replay_files_passed'] = m['classes'].get('replay_files_passed', 0) + 1
        except Violation as v:
            ctx.report(v, replay_case)
    nrand = 200000 if tier == 'quick' else 6000000
    res, crash = run_enum('enum_tag', [seed, nrand], timeout=3000)
    exhaustive = False
    if crash and crash['kind'] != 'timeout':
        case = crash['case'] or dict(kind='unknown')
        ctx.report(Violation('sanitizer:' + crash['kind'] + ':' + crash['summary'], case, crash['stderr'][-1500:]), replay_case)
    elif crash:
        m['inconclusive'] += 1
    if res:
        m['evaluations'] += res['evaluations']
        nt = res['nontrivial']
        m['classes']['enum_exhaustive_len0to2'] = res['exhaustive_cases']
        exhaustive = not crash
        for label, info in res['fails'].items():
            ctx.report(Violation(label, info['first'], 'count=%d' % info['count']), replay_case)
        m['samples'] += [dict(kind='str_to_tag', bytes='6162'), dict(kind='str_to_tag', bytes='80ff41'), dict(kind='tag_to_str', bytes='41ff2000')]
    else:
        nt = 0
    m2 = fw.merge([ctx.rec.dump()])
    # padding clause (needs the font synthesiser)
    pm = None
    if os.path.exists(os.path.join(fw.VERIF, 'py', 'props', 'c20_padding.py')):
        pm = fw.run_workers('props.c20', PROP, tier, seed, min(workers, 8), 25 if tier == 'quick' else 240)
    parts = [dict(m, nontrivial=[]), dict(m2, nontrivial=[])]
    if pm:
        parts.append(dict(pm, nontrivial=sorted(pm['nontrivial'])))
    mm = fw.merge([dict(p, error=None) for p in parts])
    mm['errors'] = (pm or {}).get('errors', [])
    # distinct non-trivial: the enumerator counts distinct arguments by construction (each enumerated once);
    # random extras may repeat, so only the enumerated ones + distinct padding cases are claimed
    distinct = (res.get('enum_nontrivial', 0) if res else 0) + len(mm['nontrivial'])
    mm['nontrivial'] = max(distinct, 0)
    fw.write_evidence(PROP, tier, seed, 'exploration', mm, RULE, time.time() - t0,
                      ['ASan red zones make any access outside an exact-size heap buffer visible', 'reference = header contract in include/graphite2/Font.h'],
                      extra=dict(exhaustive_subdomain='all C strings of length 0..2 over all byte values', enum_random_cases=2 * nrand), exhaustive=exhaustive)
    return fw.finish(PROP, mm, fw.load_known())
