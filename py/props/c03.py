"""C03  Every returned segment exposes a well-formed glyph stream  (shared machinery: py/shapecheck.py, harness/seginv.h, harness/fz_shape.cpp)"""
import shapecheck

PROP = 'C03'
VARIANTS = ['asan-direct']
RULE = ('Generators: (a) fz_shape libFuzzer campaign (16 forked workers, table-aware mutator) over synthesised + minified shipped fonts, header bytes select face options/table source/encoding/dir 0..7/ppm/features/language/NUL-termination, text drawn from the face\'s own mapped code points plus unmapped, astral and ill-formed units; (b) Hypothesis "wild" GDL-lite programs (backward cursor, insert-heavy, attach chains and re-attachment, put_copy/assoc in positioning passes, substitution through arbitrary class pairs, division, arbitrary slot attributes, reversed passes, NSM/mirror/pseudo glyphs, unreadable glyphs, linear and bisected class tables, justification levels, line-end contextuals; for C04 half of them attachment-stress programs over a 3-4 glyph alphabet) x 1-4 probes; (c) shipped fonts x cmap-guided texts (1 in 4 with raw ill-formed code-unit fragments) x 3 encodings x dir 0..7 x font NULL / unhinted / hinted. Oracle (seginv.h, public API only): next-walk from first visits exactly n_slots distinct slots and ends at last; prev is the inverse; slot indices are a permutation of 0..n-1; origins, advances and segment advance finite; gid < n_glyphs on shipped fonts (class-closed). Non-trivial: slot count changed, stream reordered, or >=1 rule fired. Distinct by input hash / case JSON.')
ASSUME = ['glyph-id clause only on shipped fonts (fuzzed/wild fonts may name non-existent glyphs in classes, excluded by the property)']


def worker(ctx):
    shapecheck.worker(ctx, PROP)


def replay_file(path):
    return shapecheck.replay_file(PROP, path)


def main(tier, seed, workers):
    return shapecheck.main(PROP, 'props.c03', tier, seed, workers, RULE, ASSUME)
