"""C20, padding clause: space-padded and zero-padded tags select the same script, language or feature wherever the
API accepts a tag (gr_face_find_fref, gr_face_featureval_for_lang, gr_make_seg script, gr_face_info)."""
import json, struct
import framework as fw
from framework import Violation, Inconclusive
from driver import Driver, DriverCrash, DriverHang, shape_params, encode_text
import fontsynth
from fonts import report_payload
import props.c18 as c18

SHORT = [b'a', b'ab', b'abc', b'z', b'en', b'MYM', b'q1']


def pad(t, ch):
    return struct.unpack('>I', (t + ch * 4)[:4])[0]


def judge(case, drv):
    fspec = case['fspec']
    try:
        font = fontsynth.build_font(dict(c18.spec_of(fspec), scripts=case.get('scripts', []), silf_subtables=case.get('silf_subtables', 1)))
    except (ValueError, struct.error, OverflowError):
        raise Inconclusive()
    fid = drv.put_font(font)
    tags = [bytes.fromhex(t) for t in case['tags']]
    ops, n, plan = b'', 0, []
    for t in tags:
        for ch in (b'\0', b' '):
            v = pad(t, ch)
            ops += bytes([13]) + struct.pack('<I', v); n += 1; plan.append(('find', t, ch))
            ops += bytes([5]) + struct.pack('<I', v) + bytes([9]) + struct.pack('<H', len([p for p in plan if p[0] == 'lang'])); n += 2; plan.append(('lang', t, ch))
    try:
        r = drv.call(b'H' + struct.pack('<IBB', fid, 0, 0) + struct.pack('<H', n) + ops, timeout=60)
        if 'error' in r or not r.get('face'):
            return None
        obs = r['obs']
        res = {}
        for (kind, t, ch), o in zip(plan, obs):
            res[(kind, t, ch)] = o
        for t in tags:
            for kind in ('find', 'lang'):
                if res[(kind, t, b'\0')] != res[(kind, t, b' ')]:
                    raise Violation('padded-tag-selects-differently:' + kind, case, 'tag %r zero-padded=%s space-padded=%s' % (t, res[(kind, t, b'\0')], res[(kind, t, b' ')]))
        # script tags: gr_make_seg and gr_face_info
        txt = encode_text([0x61, 0x62, 0x61], 4)
        # script tags include the empty string: zero padded it is 0, space padded it is four spaces (seed S9-C20: with more than one Silf
        # sub-table a half-implemented script choice told them apart in gr_face_info / gr_face_is_char_supported)
        for t in tags + [b'']:
            dumps, infos = [], []
            for ch in (b'\0', b' '):
                v = pad(t, ch)
                s = drv.call(b'S' + struct.pack('<IBB', fid, 0, 0) + shape_params(txt, enc=4, script=v))
                dumps.append(s.get('dump'))
                rep = drv.call(report_payload(fid, 0, 0, labels=False, scripts=(v,)))
                infos.append(rep.get('report', {}).get('info'))
            if dumps[0] != dumps[1]:
                raise Violation('padded-script-tag-shapes-differently', case, repr(t))
            if infos[0] != infos[1]:
                raise Violation('padded-script-tag-face-info-differs', case, repr(t))
    except DriverCrash as e:
        raise Violation('sanitizer:' + e.kind + ':' + e.summary, case, e.stderr[-1500:])
    except DriverHang:
        raise Inconclusive()
    hit = any(res[('find', t, b'\0')] >= 0 for t in tags) or any(res[('lang', t, b'\0')] != res.get(('lang', tags[0], b'\0')) for t in tags)
    return hit


def worker(ctx):
    from hypothesis import given, strategies as st
    drv = Driver()
    rec = ctx.rec

    @st.composite
    def gen(draw):
        fs = draw(c18.feat_strategy())
        # give some features / languages short-tag ids (zero padded on disk, as fonts store them)
        short = draw(st.lists(st.sampled_from(SHORT), min_size=1, max_size=4, unique=True))
        used = set(f['id'] for f in fs['feats'])
        for i, t in enumerate(short):
            v = pad(t, b'\0')
            if i < len(fs['feats']) and v not in used and draw(st.booleans()):
                # 1 in 4: the font itself stores the id space padded (unusual but valid); sometimes next to its zero-padded twin
                vs = pad(t, b' ') if draw(st.integers(0, 3)) == 0 else v
                if vs not in used:
                    fs['feats'][i]['id'] = vs; used.add(vs)
                    fs['feat_version'] = 2
            # languages likewise: 1 in 4 stored space padded by the font (seed S7-C20 looked a language up as given before normalising it)
            vl = pad(t, b' ') if draw(st.integers(0, 3)) == 0 else v
            if draw(st.booleans()) and all(l['tag'] != vl for l in fs['langs']):
                f = fs['feats'][draw(st.integers(0, len(fs['feats']) - 1))]
                val = f['settings'][-1][0] if f['settings'] else 7
                fs['langs'].append(dict(tag=vl, settings=[[f['id'], val & 0xFFFF]]))
        return dict(kind='padding', fspec=fs, tags=[t.hex() for t in short], scripts=[pad(t, b'\0') for t in short[:2]], silf_subtables=draw(st.sampled_from([1, 1, 2, 3])))

    def make(deco):
        @deco
        @given(gen())
        def t(case):
            hit = judge(case, drv)
            if hit is None:
                rec.case(font_rejected=1)
                return
            rec.case(nontrivial_sig=json.dumps(case, sort_keys=True) if hit else None, sample=dict(tags=[bytes.fromhex(x).decode() for x in case['tags']], n_features=len(case['fspec']['feats']), n_langs=len(case['fspec']['langs'])) if hit else None,
                     padding_cases=1, padded_tag_selects_object=bool(hit))
        return t

    def rp(case):
        d = Driver()
        try:
            judge(case, d)
        finally:
            d.kill()
    ctx.run_hypothesis(make, ctx.n(3200, 60000) // ctx.nworkers + 1, replay_fn=rp)
    try:
        drv.stop()
    except DriverCrash as e:
        ctx.report(Violation('sanitizer-at-exit:' + e.kind + ':' + e.summary, dict(kind='exit'), e.stderr[-1500:]))
