"""C07  The stack machine follows the opcode spec; both interpreter builds agree.

(a) Hypothesis: straight-line programs over opcodes 0x00-0x18, 0x30-0x32, 0x3E-0x41, generated with stack-depth
    tracking so that the loader accepts them, operands from boundary and random 32-bit values; loaded by the real
    Machine::Code loader as constraint and as action code and run by the interpreter of the direct-threaded AND the
    call-threaded build; compared with vmref (32-bit two's complement evaluator written from doc/OpCodes.adoc).
(b) corpus / synthesised / wild fonts x texts shaped by both builds: dumps must be byte-identical.
Opcode numbering is pinned to the on-disk numbers and cross-checked against the name column of opcode_table.h."""
import os, sys, json, time, struct, glob
import framework as fw
from framework import Violation, Inconclusive
from driver import Driver, DriverCrash, DriverHang, shape_params, encode_text, blob
import fontsynth, fonts, gdlgen

PROP = 'C07'
VARIANTS = ['asan-direct', 'asan-call']
RULE = ('(a) programs of 1..200 instructions built by a stack-discipline-aware generator (depth exactly 1 before POP_RET, 0 before RET_ZERO/RET_TRUE); operands from {0, +-1, +-2, 0x7F, 0x80, 0xFF, '
        '0x7FFF, 0x8000, 0xFFFF, INT_MIN, INT_MAX, random}; each loaded as constraint and as action code, run on both VM builds. (b) GDL-lite (C06 regime and wild) fonts and shipped fonts x texts: '
        'direct vs call dumps. Non-trivial (a): >= 3 operators and the result is not the last pushed literal; (b): >= 1 rule fired. Distinct by program bytes / case JSON.')
ASSUME = ['vmref: evaluator in this file written from doc/OpCodes.adoc; BitOr/BitAnd numbering follows the code (0x3E = BITOR), their meaning follows the document (DESIGN N2)']

M32 = 0xFFFFFFFF
INT_MIN = -0x80000000
NAMES = {0: 'NOP', 1: 'PUSH_BYTE', 2: 'PUSH_BYTE_U', 3: 'PUSH_SHORT', 4: 'PUSH_SHORT_U', 5: 'PUSH_LONG', 6: 'ADD', 7: 'SUB', 8: 'MUL', 9: 'DIV', 10: 'MIN', 11: 'MAX', 12: 'NEG',
         13: 'TRUNC8', 14: 'TRUNC16', 15: 'COND', 16: 'AND', 17: 'OR', 18: 'NOT', 19: 'EQUAL', 20: 'NOT_EQ', 21: 'LESS', 22: 'GTR', 23: 'LESS_EQ', 24: 'GTR_EQ',
         0x30: 'POP_RET', 0x31: 'RET_ZERO', 0x32: 'RET_TRUE', 0x3E: 'BITOR', 0x3F: 'BITAND', 0x40: 'BITNOT', 0x41: 'BITSET'}
FINISHED, DIED_EARLY = 0, 5


def s32(x):
    x &= M32
    return x - 0x100000000 if x & 0x80000000 else x


def vmref(prog):
    """prog: list of (opcode, operand bytes).  -> (status, ret)"""
    st = []
    for op, arg in prog:
        if op == 0: pass
        elif op == 1: st.append(s32(struct.unpack('>b', arg)[0]))
        elif op == 2: st.append(arg[0])
        elif op == 3: st.append(struct.unpack('>h', arg)[0])
        elif op == 4: st.append(struct.unpack('>H', arg)[0])
        elif op == 5: st.append(struct.unpack('>i', arg)[0])
        elif op in (6, 7, 8, 9, 10, 11, 16, 17, 19, 20, 21, 22, 23, 24, 0x3E, 0x3F):
            b = st.pop(); a = st.pop()
            if op == 6: r = s32(a + b)
            elif op == 7: r = s32(a - b)
            elif op == 8: r = s32(a * b)
            elif op == 9:
                if b == 0 or (a == INT_MIN and b == -1):
                    return DIED_EARLY, None
                q = abs(a) // abs(b)
                r = s32(q if (a < 0) == (b < 0) else -q)
            elif op == 10: r = min(a, b)
            elif op == 11: r = max(a, b)
            elif op == 16: r = 1 if (a != 0 and b != 0) else 0
            elif op == 17: r = 1 if (a != 0 or b != 0) else 0
            elif op == 19: r = 1 if a == b else 0
            elif op == 20: r = 1 if a != b else 0
            elif op == 21: r = 1 if a < b else 0
            elif op == 22: r = 1 if a > b else 0
            elif op == 23: r = 1 if a <= b else 0
            elif op == 24: r = 1 if a >= b else 0
            elif op == 0x3E: r = s32((a & M32) | (b & M32))
            elif op == 0x3F: r = s32((a & M32) & (b & M32))
            st.append(r)
        elif op == 12: st.append(s32(-st.pop()))
        elif op == 13: st.append(st.pop() & 0xFF)
        elif op == 14: st.append(st.pop() & 0xFFFF)
        elif op == 15:
            f = st.pop(); t = st.pop(); c = st.pop()
            st.append(t if c != 0 else f)
        elif op == 18: st.append(0 if st.pop() != 0 else 1)
        elif op == 0x40: st.append(s32(~st.pop()))
        elif op == 0x41:
            m, v = struct.unpack('>HH', arg)
            st.append(s32(((st.pop() & M32) & ~m & M32) | v))
        elif op == 0x30: return FINISHED, st.pop()
        elif op == 0x31: return FINISHED, 0
        elif op == 0x32: return FINISHED, 1
    raise ValueError('program without return')


def assemble(prog):
    return b''.join(bytes([op]) + arg for op, arg in prog)


def program_strategy():
    from hypothesis import strategies as st
    vals = st.one_of(st.sampled_from([0, 1, -1, 2, -2, 0x7F, 0x80, 0xFF, 0x100, 0x7FFF, 0x8000, 0xFFFF, 0x10000, INT_MIN, 0x7FFFFFFF, INT_MIN + 1, -0x8000, -0x80]),
                     st.integers(INT_MIN, 0x7FFFFFFF), st.integers(-300, 300))
    BIN = [6, 7, 8, 9, 10, 11, 16, 17, 19, 20, 21, 22, 23, 24, 0x3E, 0x3F]
    UN = [12, 13, 14, 18, 0x40, 0x41]

    @st.composite
    def push(draw):
        v = draw(vals)
        forms = []
        if -128 <= v <= 127: forms.append((1, struct.pack('>b', v)))
        if 0 <= v <= 255: forms.append((2, bytes([v])))
        if -32768 <= v <= 32767: forms.append((3, struct.pack('>h', v)))
        if 0 <= v <= 65535: forms.append((4, struct.pack('>H', v)))
        forms.append((5, struct.pack('>i', v)))
        return draw(st.sampled_from(forms))

    @st.composite
    def prog(draw):
        n = draw(st.integers(1, 200)) if draw(st.integers(0, 4)) == 0 else draw(st.integers(1, 24))
        out, depth = [], 0
        for _ in range(n):
            k = draw(st.integers(0, 9))
            if depth < 38 and draw(st.integers(0, 19)) == 0:
                # the corners the opcode specification names: division by zero and INT_MIN / -1, overflowing MUL / ADD / SUB / NEG
                a = draw(st.sampled_from([INT_MIN, INT_MIN + 1, 0x7FFFFFFF, -1, 0, 1]))
                b = draw(st.sampled_from([-1, 0, 1, INT_MIN, 2, -2]))
                out.append((5, struct.pack('>i', a))); out.append((5, struct.pack('>i', b)))
                out.append((draw(st.sampled_from([9, 9, 9, 8, 6, 7, 10, 11])), b'')); depth += 1
                continue
            if depth >= 3 and k == 0:
                out.append((15, b'')); depth -= 2
            elif depth >= 2 and k <= 4:
                out.append((draw(st.sampled_from(BIN)), b'')); depth -= 1
            elif depth >= 1 and k <= 6:
                op = draw(st.sampled_from(UN))
                out.append((op, struct.pack('>HH', draw(st.sampled_from([0, 0xFF, 0xFF00, 0xFFFF, 0x00F0])), draw(st.integers(0, 0xFFFF))) if op == 0x41 else b''))
            elif k == 7:
                out.append((0, b''))
            elif depth < 40:
                out.append(draw(push())); depth += 1
        if depth == 0:
            end = draw(st.sampled_from([0x31, 0x32, 0x30]))
            if end == 0x30:
                out.append(draw(push())); depth = 1
            else:
                out.append((end, b''))
                return out
        while depth > 1:
            if depth >= 3 and draw(st.integers(0, 3)) == 0:
                out.append((15, b'')); depth -= 2
            else:
                out.append((draw(st.sampled_from(BIN)), b'')); depth -= 1
        out.append((0x30, b''))
        return out
    return prog()


_vmfont = None


def vm_font():
    global _vmfont
    if _vmfont is None:
        spec = dict(glyphs=[dict(adv=500, bbox=[0, 0, 400, 600], attrs={}) for _ in range(3)], cmap={'97': 1, '98': 2}, classes=[[1], [2]], ngattr=8,
                    passes=[dict(pre=0, maxloop=2, rules=[dict(items=[1], actions=[dict(op='keep')])])])
        _vmfont = fontsynth.build_font(spec)
    return _vmfont


def judge_prog(case, drvs):
    prog = [(op, bytes.fromhex(a)) for op, a in case['prog']]
    code = assemble(prog)
    want = vmref(prog)
    for vname, drv in drvs.items():
        fid = drv.put_font(vm_font())
        for cons in (1, 0):
            try:
                r = drv.call(b'V' + struct.pack('<IB', fid, cons) + blob(code))
            except DriverCrash as e:
                raise Violation('sanitizer:' + e.kind + ':' + e.summary, case, vname + '\n' + e.stderr[-1500:])
            except DriverHang:
                raise Inconclusive()
            if 'error' in r:
                raise Inconclusive()
            if not r['ok']:
                raise Violation('loader-rejected-well-formed-program', case, '%s cons=%d code status=%d' % (vname, cons, r['loaded']))
            if want[0] == DIED_EARLY:
                if r['status'] != DIED_EARLY:
                    raise Violation('division-did-not-fail-safely', case, '%s cons=%d status=%d ret=%d' % (vname, cons, r['status'], r['ret']))
            else:
                if r['status'] != FINISHED:
                    raise Violation('machine-status-not-finished', case, '%s cons=%d status=%d' % (vname, cons, r['status']))
                if r['ret'] != want[1]:
                    raise Violation('return-value-differs-from-opcode-spec', case, '%s cons=%d got=%d want=%d' % (vname, cons, r['ret'], want[1]))
    return want


def judge_deep(case, drvs):
    """Stack depth around the machine's limit (1024 entries): PUSH_BYTE 1 x d, then ADD (or MAX) x (d-1), POP_RET.  The opcode specification
    says nothing about where the stack ends, so the oracle is differential for the status (both interpreter builds must stop, or not, at the
    same depth - the second sentence of C07) and the specification value (d, or 1 for MAX) wherever a build reports a finished run."""
    d, op = case['depth'], case['op']
    prog = [(2, b'\x01')] * d + [(op, b'')] * (d - 1) + [(0x30, b'')]
    code = assemble(prog)
    want = d if op == 6 else 1
    seen = {}
    for vname, drv in drvs.items():
        fid = drv.put_font(vm_font())
        for cons in (1, 0):
            try:
                r = drv.call(b'V' + struct.pack('<IB', fid, cons) + blob(code))
            except DriverCrash as e:
                raise Violation('sanitizer:' + e.kind + ':' + e.summary, case, vname + '\n' + e.stderr[-1500:])
            except DriverHang:
                raise Inconclusive()
            if 'error' in r:
                raise Inconclusive()
            seen[(vname, cons)] = (bool(r['ok']), r.get('status'), r.get('ret') if r.get('status') == FINISHED else None)
            if r['ok'] and r.get('status') == FINISHED and r['ret'] != want:
                raise Violation('return-value-differs-from-opcode-spec', case, '%s cons=%d got=%d want=%d' % (vname, cons, r['ret'], want))
    for cons in (1, 0):
        vals = set(seen[(v, cons)] for v in drvs)
        if len(vals) > 1:
            raise Violation('interpreter-builds-disagree-at-stack-depth', case, 'cons=%d %s' % (cons, {v: seen[(v, cons)] for v in drvs}))
    return seen


def shape_both(case, drvs):
    if case['kind'] == 'spec':
        try:
            font = fontsynth.build_font(case['spec'])
        except (ValueError, KeyError, IndexError, struct.error):
            raise Inconclusive()
        src = 0
    else:
        font = fonts.load(case['font']); src = 0x80
    tb = encode_text(case['text'], case.get('enc', 4))
    out = {}
    for vname, drv in drvs.items():
        fid = drv.put_font(font)
        try:
            out[vname] = drv.call(b'S' + struct.pack('<IBB', fid, src, 0) + shape_params(tb, enc=case.get('enc', 4), dir=case.get('dir', 0), ppm=case.get('ppm', 0.0),
                                  feats=[tuple(x) for x in case.get('feats', [])]), timeout=60)
        except DriverCrash as e:
            out[vname] = dict(crash=e.kind + ':' + e.summary)
        except DriverHang:
            raise Inconclusive()
    a, b = out['asan-direct'], out['asan-call']
    if ('crash' in a) != ('crash' in b):
        raise Violation('one-interpreter-build-crashes', case, json.dumps([a.get('crash'), b.get('crash')]))
    if 'crash' in a:
        return a          # both crash alike: C02's business
    if a.get('face') != b.get('face') or a.get('seg') != b.get('seg'):
        raise Violation('interpreter-builds-disagree-on-acceptance', case, 'face %s/%s seg %s/%s' % (a.get('face'), b.get('face'), a.get('seg'), b.get('seg')))
    if a.get('dump') != b.get('dump'):
        raise Violation('interpreter-builds-shape-differently', case, '')
    return a


def replay_case(case):
    drvs = {v: Driver(variant=v) for v in VARIANTS}
    try:
        if case.get('kind') == 'prog':
            judge_prog(case, drvs)
        elif case.get('kind') == 'deep':
            judge_deep(case, drvs)
        else:
            shape_both(case, drvs)
    finally:
        for d in drvs.values():
            d.kill()


def replay_file(path):
    d = json.load(open(path))
    try:
        replay_case(d['case'])
    except Violation as v:
        print('VIOLATION property=%s replay=%s label=%s' % (PROP, path, v.label))
        return 1
    print('replay: property held on', path)
    return 0


def worker(ctx):
    from hypothesis import given, strategies as st
    import wildgen
    drvs = {v: Driver(variant=v) for v in VARIANTS}
    rec = ctx.rec
    # opcode numbering cross-check (mechanism: table index == on-disk opcode number)
    for v, d in drvs.items():
        names = d.call(b'O')
        for num, nm in NAMES.items():
            if names[num] != nm:
                ctx.report(Violation('opcode-table-index-ne-opcode-number', dict(kind='opnames', build=v, number=num, expected=nm, found=names[num]), ''))
                return

    if ctx.k == 0:
        # deterministic: depths 1..3, 40..41 and every depth around the machine's stack limit, two reducing opcodes (seed S7-C07 moved the limit of
        # the call-threaded build by one)
        for d in [1, 2, 3, 40, 41, 255, 256, 257, 511, 512, 513] + list(range(1015, 1032)) + [1100, 2000]:
            for op in (6, 11):
                case = dict(kind='deep', depth=d, op=op)
                try:
                    seen = judge_deep(case, drvs)
                    rec.case(nontrivial_sig=json.dumps(case) if d > 40 else None, sample=None, deep_stack_programs=1,
                             deep_stack_overflowed=any(v[1] != FINISHED for v in seen.values()))
                except Violation as v:
                    ctx.report(v, replay_case)
                except Inconclusive:
                    pass

    def make_prog(deco):
        @deco
        @given(program_strategy())
        def t(prog):
            case = dict(kind='prog', prog=[[op, a.hex()] for op, a in prog])
            want = judge_prog(case, drvs)
            nops = sum(1 for op, _ in prog if op not in (0, 1, 2, 3, 4, 5, 0x30, 0x31, 0x32))
            lastpush = None
            for op, a in prog:
                if op in (1, 2, 3, 4, 5):
                    lastpush = vmref([(op, a), (0x30, b'')])[1]
            nt = nops >= 3 and (want[0] == DIED_EARLY or want[1] != lastpush)
            ops = set(op for op, _ in prog)
            rec.case(nontrivial_sig=assemble(prog) if nt else None, sample=dict(program=' '.join(NAMES[op] + ('(' + a.hex() + ')' if a else '') for op, a in prog[:40]), result=want[1], status=want[0]) if nt else None,
                     div_fail=want[0] == DIED_EARLY, has_cond=15 in ops, has_bitops=bool(ops & {0x3E, 0x3F, 0x40, 0x41}), has_signed_cmp=bool(ops & {21, 22, 23, 24, 10, 11}),
                     has_mul=8 in ops, has_div=9 in ops, long_program=len(prog) > 50)
        return t

    names = ['Padauk.ttf', 'Scheherazadegr.ttf', 'general.ttf', 'charis_r_gr.ttf', 'Annapurnarc2.ttf', 'Awami_test.ttf'] if ctx.thorough() else ['Padauk.ttf', 'Scheherazadegr.ttf', 'general.ttf']
    sup = {f: fonts.supported(drvs['asan-direct'], f) for f in names}

    def make_fonts(deco):
        @deco
        @given(st.data())
        def t(data):
            k = data.draw(st.integers(0, 2))
            if k == 0:
                wc = data.draw(wildgen.wild_case(max_len=16, nprobes=2))
                cases = [dict(kind='spec', spec=wc['spec'], text=pr['text'], dir=pr['dir'], enc=pr['enc'], ppm=pr['ppm'], feats=pr['feats']) for pr in wc['probes']]
            elif k == 1:
                cc = data.draw(gdlgen.c06_case(max_len=16, nprobes=2))
                cases = [dict(kind='spec', spec=cc['spec'], text=pr['text'], dir=pr['dir'], enc=4, feats=pr['feats']) for pr in cc['probes']]
            else:
                f = data.draw(st.sampled_from(names))
                cases = [dict(kind='shipped', font=f, text=[c for c in data.draw(fonts.text_strategy(sup[f], 0, 24)) if c], dir=data.draw(st.integers(0, 7)), enc=data.draw(st.sampled_from([1, 2, 4])))]
            for case in cases:
                r = shape_both(case, drvs)
                rec.case(nontrivial_sig=json.dumps(case, sort_keys=True) if r.get('fired') else None,
                         sample=dict(kind=case['kind'], font=case.get('font', 'synthesised'), text=case['text'], rules_fired=r.get('fired')) if r.get('fired') else None,
                         diff_shaped=1, diff_rule_fired=bool(r.get('fired')), diff_both_crash='crash' in r)
        return t

    n = ctx.n(24000, 400000) // ctx.nworkers + 1
    ctx.run_hypothesis(make_prog, n, replay_fn=replay_case, share=0.7)
    ctx.run_hypothesis(make_fonts, n // 6, replay_fn=replay_case)
    for d in drvs.values():
        try:
            d.stop()
        except DriverCrash as e:
            rec.other['C02:at-exit:' + e.summary] = 1


def main(tier, seed, workers):
    t0 = time.time()
    ctx = fw.Ctx(PROP, tier, seed, 0, 1, 3600)
    for f in sorted(glob.glob(os.path.join(fw.VERIF, 'replay', PROP, '*.json'))):
        try:
            replay_case(json.load(open(f))['case'])
            ctx.rec.count('replay_files_passed')
        except Violation as v:
            ctx.report(v, replay_case)
    pm = fw.run_workers('props.c07', PROP, tier, seed, workers, 60 if tier == 'quick' else 900)
    mm = fw.merge([dict(ctx.rec.dump(), error=None), dict(pm, nontrivial=sorted(pm['nontrivial']), error=None)])
    mm['errors'] = pm['errors']
    fw.write_evidence(PROP, tier, seed, 'exploration', mm, RULE, time.time() - t0, ASSUME)
    return fw.finish(PROP, mm, fw.load_known())
