"""C17  Collision fixing respects limits and its 'resolved' verdict is true.

Component harnesses on the real classes (no hook):
 * pbt_zones: generated operation sequences (initialise XY|SD, exclude, exclude_with_margins, weighted insert) on
   graphite2::Zones with endpoints from a small pool; after every operation the exclusion list must be sorted, disjoint,
   inside its bounds; closest() may report "none" only when an interval model has no free point, and may never offer a
   position strictly inside a removed interval.  Failing sequences are shrunk by operation removal.
 * pbt_coll: generated arrangements (target + <= 6 neighbours from the octabox-bearing glyphs of the Awami fonts,
   arbitrary origins, margins, limits incl. zero-extent ones, current shifts / offsets) through ShiftCollider
   initSlot / mergeSlot / resolve and KernCollider; oracle = limit clamp + independent separating-axis octabox test.
   Right-to-left runs with any limits; left-to-right runs gate on x-symmetric limits (asymmetric LTR limits are a
   non-gating class, DESIGN section 7 S2)."""
import os, sys, json, time, glob
from concurrent.futures import ThreadPoolExecutor
import framework as fw
from framework import Violation, Inconclusive
from enumrun import run_enum
import fonts

PROP = 'C17'
VARIANTS = ['asan-direct']
FONTS = ['Awami_test.ttf', 'AwamiNastaliq-Regular.ttf']
RULE = ('pbt_zones: seeded generator, sequences of 1..40 operations, endpoints 3/4 from a pool of 20 values (equal / nested / touching / crossing intervals frequent), closest() queried after every operation. '
        'pbt_coll: seeded generator, target x 1..6 neighbours, limits: 60% symmetric random, 30% integer asymmetric (LTR: mirrored unless the non-gating class), 10% zero extent on one axis; '
        'offsets/shifts zero or inside the limit; margins 0..29. Non-trivial (zones): sequence of >= 3 operations with a closest() verdict; (coll): >= 1 neighbour overlapped the target before, '
        'a different shift was produced and the fixer reported "resolved". Distinct: cases are distinct (seed, index) pairs of a deterministic generator (counted by the harness).')
ASSUME = ['reach = the engine\'s documented short-circuit (neighbour bbox inflated by the margin meets the limit\'s x- or y-extent in the target frame)', 'overlap threshold 0.02 design units; limit tolerance 0.01 + 1e-5|v|',
          'LTR runs gate on x-symmetric limits only (property quantifier)']


def replay_case(case):
    if case['kind'] == 'zones':
        args = ['replay', case['seed'], case['case']] + ([','.join(str(k) for k in case['keep'])] if case.get('keep') else [])
        res, crash = run_enum('pbt_zones', args, timeout=120)
    else:
        args = ['replay', fonts.path(case['font']), case['seed'], case['case'], case['dir'], case.get('mask', 255)] + (['kern'] if case['kind'] == 'kern' else [])
        res, crash = run_enum('pbt_coll', args, timeout=120)
    if crash:
        raise Violation('sanitizer:' + crash['kind'] + ':' + crash['summary'], case, crash['stderr'][-1500:])
    if res and res.get('label'):
        if res.get('class') == 1:
            return            # LTR with asymmetric limits: outside the stated quantifier
        if res.get('class') == 3 and res['label'] == 'resolved-but-octaboxes-overlap':
            raise Violation('KNOWN:KF3', case, '')
        raise Violation(res['label'] + (':zero-extent-limit' if res.get('class') == 2 and case['kind'] == 'shift' else ''), case, '')


def replay_file(path):
    d = json.load(open(path))
    try:
        replay_case(d['case'])
    except Violation as v:
        if v.label.startswith('KNOWN:'):
            print('KNOWN-FINDING: property=%s %s still reproduces on %s' % (PROP, v.label[6:], path))
            return 0
        print('VIOLATION property=%s replay=%s label=%s' % (PROP, path, v.label))
        return 1
    print('replay: property held on', path)
    return 0


def main(tier, seed, workers):
    t0 = time.time()
    ctx = fw.Ctx(PROP, tier, seed, 0, 1, 3600)
    m = fw.merge([])
    for f in sorted(glob.glob(os.path.join(fw.VERIF, 'replay', PROP, '*.json'))):
        try:
            replay_case(json.load(open(f))['case'])
            ctx.rec.count('replay_files_passed')
        except Violation as v:
            if v.label.startswith('KNOWN:'):
                ctx.known_hit(v.label[6:])
            else:
                ctx.report(v, replay_case)
    nz = 150000 if tier == 'quick' else 3000000
    nc = 40000 if tier == 'quick' else 800000
    jobs = []
    for k in range(workers // 2):
        jobs.append(('pbt_zones', ['run', seed * 100 + k + 1, nz]))
    k = 0
    for font in FONTS:
        for d in (1, 0):
            for rep in range(max(1, workers // 8)):
                k += 1
                jobs.append(('pbt_coll', ['run', fonts.path(font), seed * 100 + k, nc if font == FONTS[0] else nc // 2, d]))
    with ThreadPoolExecutor(max_workers=workers) as ex:
        results = list(ex.map(lambda j: (j, run_enum(j[0], j[1], timeout=6000)), jobs))
    nontriv = 0
    for (exe, args), (res, crash) in results:
        if crash and crash['kind'] != 'timeout':
            ctx.report(Violation('sanitizer:' + crash['kind'] + ':' + crash['summary'], dict(kind='crash', exe=exe, args=[str(a) for a in args]), crash['stderr'][-1500:]))
            continue
        if not res or 'error' in res:
            m['errors'].append('%s produced no result: %s' % (exe, res))
            continue
        m['evaluations'] += res['evaluations'] + res.get('kern_evaluations', 0)
        nontriv += res['nontrivial']
        for k2 in ('offers', 'none', 'zero_length_intervals', 'resolved', 'unresolved', 'overlapping_before', 'neighbours_in_reach', 'class_gating', 'class_ltr_asym', 'class_zero_extent', 'class_ltr_offset_KF3', 'kern_evaluations', 'kern_hits'):
            if k2 in res:
                m['classes'][exe + '_' + k2] = m['classes'].get(exe + '_' + k2, 0) + res[k2]
        if res.get('sample') and len(m['samples']) < 4:
            m['samples'].append(res['sample'])
        for label, info in res['fails'].items():
            ctx.report(Violation(label, info['first'], 'count=%d' % info['count']), replay_case)
        for label, info in res.get('known_KF3', {}).items():
            m['known_hits']['KF3'] = m['known_hits'].get('KF3', 0) + info['count']
            if 'kf3_sample' not in m['classes']:
                m['classes']['kf3_sample'] = 1
                m['samples'].append(dict(known_finding='KF3', **info['first']))
        for label, info in res.get('nongating', {}).items():
            m['classes']['nongating_ltr_asymmetric_' + label] = m['classes'].get('nongating_ltr_asymmetric_' + label, 0) + info['count']
    mm = fw.merge([dict(m, nontrivial=[], error=None), dict(ctx.rec.dump(), error=None)])
    mm['errors'] = m['errors']
    mm['nontrivial'] = nontriv
    fw.write_evidence(PROP, tier, seed, 'exploration', mm, RULE, time.time() - t0, ASSUME)
    return fw.finish(PROP, mm, fw.load_known())
