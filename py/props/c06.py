"""C06  Passes apply rules with the documented matching and precedence semantics.

Hypothesis generates GDL-lite programs (gdlgen.c06_spec); fontsynth compiles them to a font; grdrv shapes
a glyph string with font = NULL; gdlmodel interprets the same program.  Compared: glyph sequence, parent
relation, slot attributes (advance, shift, attach.at/with, user), associations (when every character is
covered so that the engine's gap-filling is the identity), origins and segment advance (exact).
"""
import os, sys, json, time, struct, glob
import framework as fw
from framework import Violation, Inconclusive
from driver import Driver, DriverCrash, DriverHang, shape_params, encode_text
import fontsynth, gdlmodel, gdlgen

PROP = 'C06'
VARIANTS = ['asan-direct']
RULE = ('Hypothesis: GDL-lite programs (1-3 passes, uniform pre-context 0..2, <=5 rules of length <=5 over overlapping classes, '
        'constraints over glyph attrs/user attrs/features, actions keep/put_glyph/put_subs/put_copy/insert/delete/assoc/attr sets, '
        'attachments in positioning passes) compiled by fontsynth (Silf v2-v5, Glat v1-v3) x glyph strings <=24 over the repertoire x '
        'text direction x font direction x feature settings; class tables stored linear or as bisected lookup tables; biased sub-programs: slot recycling (mark, delete, insert), PUT_COPY of a marked slot, three marks on a base with the middle one re-attached. Oracle: gdlmodel.py reference interpreter. Non-trivial: at some position '
        '>=2 candidate rules matched and a rule fired. Distinct by (program, text, dir, features).')

# indices into dump slot 'at' list (see harness/seginv.h)
AT = dict(advx=0, advy=1, attx=2, atty=3, withx=6, withy=7, insert=13, shiftx=16, shifty=17)


def float_of(h):
    return float.fromhex(h)


def compare(case, r, m):
    """r: driver response, m: model result.  Raises Violation on the first disagreement."""
    d = r['dump']
    ms = m['stream']
    es = d['slots']
    if [s['g'] for s in es] != [s.gid for s in ms]:
        raise Violation('glyph-sequence-differs', case, 'engine=%s model=%s' % ([s['g'] for s in es], [s.gid for s in ms]))
    pos = {id(s): i for i, s in enumerate(ms)}
    for i, (e, s) in enumerate(zip(es, ms)):
        mp = pos[id(s.parent)] if s.parent is not None else -1
        if e['p'] != mp:
            raise Violation('attachment-differs', case, 'slot %d engine parent=%d model parent=%d' % (i, e['p'], mp))
        at = e['at']
        for name, mv in (('advx', s.advx), ('advy', s.advy), ('shiftx', s.shiftx), ('shifty', s.shifty), ('attx', s.attx), ('atty', s.atty),
                         ('withx', s.withx), ('withy', s.withy)):
            if at[AT[name]] != mv:
                raise Violation('slot-attr-differs:' + name, case, 'slot %d engine=%d model=%d' % (i, at[AT[name]], mv))
        nu = len(s.user)
        if e['u'][:nu] != s.user[:8]:
            raise Violation('user-attr-differs', case, 'slot %d engine=%s model=%s' % (i, e['u'][:nu], s.user))
    # associations: only when the model's ranges cover every character (then the engine's gap filling is the identity)
    nc = d['nc']
    cover = [0] * nc
    ok = True
    for s in ms:
        if s.before is None or s.after is None:
            ok = False
            break
        for c in range(s.before, s.after + 1):
            if 0 <= c < nc:
                cover[c] = 1
    assoc_checked = False
    if ok and all(cover):
        assoc_checked = True
        for i, (e, s) in enumerate(zip(es, ms)):
            if e['b'] != s.before or e['f'] != s.after:
                raise Violation('association-differs', case, 'slot %d engine=[%d,%d] model=[%d,%d]' % (i, e['b'], e['f'], s.before, s.after))
    for i, (e, s) in enumerate(zip(es, ms)):
        ox, oy = float_of(e['o'][0]), float_of(e['o'][1])
        if ox != s.ox or oy != s.oy:
            raise Violation('origin-differs', case, 'slot %d engine=(%g,%g) model=(%g,%g)' % (i, ox, oy, s.ox, s.oy))
    if float_of(d['adv'][0]) != m['advance']:
        raise Violation('segment-advance-differs', case, 'engine=%g model=%g' % (float_of(d['adv'][0]), m['advance']))
    if float_of(d['adv'][1]) != m['advance_y']:
        raise Violation('segment-advance-y-differs', case, 'engine=%g model=%g' % (float_of(d['adv'][1]), m['advance_y']))
    return assoc_checked


def featvals_for(spec, fv):
    vals = []
    given = {i: v for i, v in fv}
    for f in spec.get('feats', []):
        vals.append(given.get(f['id'], f['settings'][0][0] if f['settings'] else 0))
    return vals


def judge(case, drv):
    """case: {'spec':..., 'probes': [{'text','dir','feats'}]}.  Returns list of (probe, response, model result, other labels, assoc_checked)."""
    spec = case['spec']
    try:
        font = fontsynth.build_font(spec)
    except ValueError:
        raise Inconclusive()
    fid = drv.put_font(font)
    model = gdlmodel.Model(spec)
    out = []
    for pr in case['probes']:
        one = dict(spec=spec, probes=[pr])
        try:
            r = drv.call(b'S' + struct.pack('<IBB', fid, 0, 0) + shape_params(encode_text(pr['text'], 4), enc=4, dir=pr['dir'], feats=[tuple(x) for x in pr['feats']], check_gid=True))
        except DriverCrash as e:
            raise Violation('sanitizer:' + e.kind + ':' + e.summary, one, e.stderr[-1500:])
        except DriverHang:
            raise Inconclusive()
        if not r.get('face'):
            raise Violation('compiled-font-rejected', one, 'load error %s' % (r.get('lerr'),))
        if r.get('featfail'):
            raise Violation('feature-setting-rejected', one, '')
        m = model.shape(pr['text'], pr['dir'], featvals_for(spec, pr['feats']))
        if not r['seg']:
            raise Violation('engine-returned-no-segment', one, 'model stream=%s' % [s.gid for s in m['stream']])
        other = [(p, l) for p, l in r.get('labels', [])]
        assoc_checked = compare(one, r, m)
        out.append((pr, r, m, other, assoc_checked))
    return out


def replay_case(case):
    drv = Driver()
    try:
        judge(case, drv)
    finally:
        drv.kill()


def replay_file(path):
    d = json.load(open(path))
    try:
        replay_case(d['case'])
    except Violation as v:
        print('VIOLATION property=%s replay=%s label=%s' % (PROP, path, v.label))
        return 1
    print('replay: property held on', path)
    return 0


def classify(m, spec):
    """sub-classes of non-triviality from the model's event log"""
    cl = {}
    multi = False
    for pi, ev in enumerate(m['events']):
        for e in ev:
            if e['rule'] >= 0:
                if e['ncand'] >= 2:
                    multi = True
                for h in e['how']:
                    cl['prec_' + h] = 1
                if pi > 0:
                    cl['later_pass_fired'] = 1
            elif e['rule'] == -1:
                cl['all_constraints_failed'] = 1
            else:
                cl['precontext_shortage'] = 1
    return multi, cl


def worker(ctx):
    from hypothesis import given
    drv = Driver()
    rec = ctx.rec

    def make(deco):
        @deco
        @given(gdlgen.c06_case(max_len=ctx.n(16, 24)))
        def t(case):
            spec = case['spec']
            for pr, r, m, other, assoc_checked in judge(case, drv):
                for p, l in other:
                    rec.other[p + ':' + l] = rec.other.get(p + ':' + l, 0) + 1
                multi, cl = classify(m, spec)
                nontriv = multi and m['fired'] > 0
                sample = None
                if nontriv and len(rec.samples) < 4:
                    sample = dict(text=pr['text'], dir=pr['dir'], feats=pr['feats'], fontdir=spec['dir'], passes=[dict(pre=p['pre'], nrules=len(p['rules'])) for p in spec['passes']],
                                  engine_glyphs=[s['g'] for s in r['dump']['slots']], rules_fired=m['fired'])
                rec.case(nontrivial_sig=(json.dumps(spec, sort_keys=True), json.dumps(pr, sort_keys=True)) if nontriv else None, sample=sample,
                         fired=m['fired'] > 0, assoc_compared=assoc_checked, attached=any(s.parent is not None for s in m['stream']),
                         rtl_font=spec['dir'] == 1, dir_mismatch=(pr['dir'] & 1) != spec['dir'],
                         len_changed=len(m['stream']) != len(pr['text']), font_with_pass_bits=bool(spec.get('apassbits')), font_with_linebreak_passes=bool(spec.get('ilb')), **cl)
        return t

    ctx.run_hypothesis(make, ctx.n(12000, 240000) // ctx.nworkers + 1, replay_fn=replay_case)
    try:
        drv.stop()
    except DriverCrash as e:
        ctx.report(Violation('sanitizer-at-exit:' + e.kind + ':' + e.summary, dict(kind='exit'), e.stderr[-1500:]))


def main(tier, seed, workers):
    t0 = time.time()
    ctx = fw.Ctx(PROP, tier, seed, 0, 1, 3600)
    for f in sorted(glob.glob(os.path.join(fw.VERIF, 'replay', PROP, '*.json'))):
        try:
            replay_case(json.load(open(f))['case'])
            ctx.rec.count('replay_files_passed')
        except Violation as v:
            ctx.report(v, replay_case)
    pm = fw.run_workers('props.c06', PROP, tier, seed, workers, 60 if tier == 'quick' else 900)
    mm = fw.merge([dict(ctx.rec.dump(), error=None), dict(pm, nontrivial=sorted(pm['nontrivial']), error=None)])
    mm['errors'] = pm['errors']
    fw.write_evidence(PROP, tier, seed, 'exploration', mm, RULE, time.time() - t0,
                      ['reference interpreter py/gdlmodel.py and compiler py/fontsynth.py are separate code paths from the same rule value',
                       'regime restrictions (DESIGN 5/C06): cursor progress, attached glyphs have zero advance and non-negative x offsets, '
                       'explicit associations on inserted slots, uniform pre-context'])
    return fw.finish(PROP, mm, fw.load_known())
