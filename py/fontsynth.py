"""Font synthesiser: writers for every table the engine reads, and the GDL-lite compiler.

A *spec* is a plain JSON-able dict (so that a shrunk failing case is its own replay file):

  spec = {
    'upem': 1000, 'silf_version': 0x00040000, 'glat_version': 1|2|3, 'gloc_long': bool,
    'dir': 0|1,                        # font direction (0 = LTR)
    'nuser': 4, 'ngattr': 12,          # user slot attributes, glyph attributes per glyph
    'glyphs': [ {'adv': int, 'bbox': [xi, yi, xa, ya], 'attrs': {str(id): int16}, 'oct': [..]|None } ],
    'cmap': {str(cp): gid}, 'cmap12': {str(cp): gid} | None, 'pseudos': [[uid, gid]],
    'classes': [[gid, ...], ...],      # class table; a class is used as linear (output) and/or lookup (input)
    'passes': [ Pass ], 'nsubst': k,   # passes[0:k] substitution, rest positioning
    'feats': [ {'id': int, 'settings': [[value, nameid]], 'flags': int, 'name': nameid} ],
    'langs': [ {'tag': int, 'settings': [[featid, value]]} ],
    'names': [ [platform, encoding, lang, nameid, "text"] ],
    'compress': {'Silf': scheme|None, 'Glat': ...}   (handled by the caller through lz4ref)
  }
  Pass = {'pre': p, 'maxloop': n, 'reverse': bool, 'pconstraint': Expr|None, 'rules': [Rule], 'flags': 0}
  Rule = {'items': [class index, ...]   # pre-context + body, each a class index (the class's glyph set)
          'constraint': {'global': Expr|None, 'items': {str(k): Expr}}   # k relative to body start
          'actions': [Item], 'adjust': int, 'raw_action': hex|None, 'raw_constraint': hex|None}
  Item = {'op': 'keep'|'glyph'|'subs'|'copy'|'delete', 'insert': bool, 'cls': i, 'in': i, 'out': i, 'ref': r,
          'assoc': [refs] | None, 'attrs': [[kind, arg, Expr]] }
       refs/`ref` are *input item indices relative to body start* (the compiler converts them to map-relative offsets)
       kind: 'advx' 'advy' 'shiftx' 'shifty' 'user'(arg=index) 'attach'(Expr ignored, arg = input item index) 'attx' 'atty' 'withx' 'withy'
             'break' 'insert' 'slat'(arg = raw slot attribute code)
  Expr = ['lit', n] | ['gattr', id, ref] | ['user', idx, ref] | ['feat', featindex, ref] | ['sattr', code, ref]
       | ['bin', op, a, b] | ['not', a] | ['neg', a] | ['cond', c, t, f]       (ref: input item index relative to the *current* item)
"""
import struct

def u8(x): return struct.pack('>B', x & 0xFF)
def u16(x): return struct.pack('>H', x & 0xFFFF)
def i16(x): return struct.pack('>h', x)
def u32(x): return struct.pack('>I', x & 0xFFFFFFFF)

# ---------------------------------------------------------------------------------------------------
# opcodes (on-disk numbers)
OPNAMES = ['NOP', 'PUSH_BYTE', 'PUSH_BYTEU', 'PUSH_SHORT', 'PUSH_SHORTU', 'PUSH_LONG', 'ADD', 'SUB', 'MUL', 'DIV', 'MIN', 'MAX', 'NEG', 'TRUNC8',
           'TRUNC16', 'COND', 'AND', 'OR', 'NOT', 'EQUAL', 'NOT_EQ', 'LESS', 'GTR', 'LESS_EQ', 'GTR_EQ', 'NEXT', 'NEXT_N', 'COPY_NEXT', 'PUT_GLYPH_8',
           'PUT_SUBS_8', 'PUT_COPY', 'INSERT', 'DELETE', 'ASSOC', 'CNTXT_ITEM', 'ATTR_SET', 'ATTR_ADD', 'ATTR_SUB', 'ATTR_SET_SLOT', 'IATTR_SET_SLOT',
           'PUSH_SLOT_ATTR', 'PUSH_GLYPH_ATTR_OBS', 'PUSH_GLYPH_METRIC', 'PUSH_FEAT', 'PUSH_ATT_TO_GATTR_OBS', 'PUSH_ATT_TO_GLYPH_METRIC',
           'PUSH_ISLOT_ATTR', 'PUSH_IGLYPH_ATTR', 'POP_RET', 'RET_ZERO', 'RET_TRUE', 'IATTR_SET', 'IATTR_ADD', 'IATTR_SUB', 'PUSH_PROC_STATE',
           'PUSH_VERSION', 'PUT_SUBS', 'PUT_SUBS2', 'PUT_SUBS3', 'PUT_GLYPH', 'PUSH_GLYPH_ATTR', 'PUSH_ATT_TO_GLYPH_ATTR', 'BITOR', 'BITAND', 'BITNOT',
           'BITSET', 'SET_FEAT']
OP = {n: i for i, n in enumerate(OPNAMES)}
# slot attribute codes (include/graphite2/Segment.h)
SLAT = dict(advx=0, advy=1, attach=2, attx=3, atty=4, withx=8, withy=9, attlevel=13, brk=14, insert=17, shiftx=20, shifty=21, user=55)
BINOPS = {'add': 'ADD', 'sub': 'SUB', 'mul': 'MUL', 'and': 'AND', 'or': 'OR', 'eq': 'EQUAL', 'ne': 'NOT_EQ', 'lt': 'LESS', 'gt': 'GTR',
          'le': 'LESS_EQ', 'ge': 'GTR_EQ', 'min': 'MIN', 'max': 'MAX', 'bitor': 'BITOR', 'bitand': 'BITAND', 'div': 'DIV'}

# ---------------------------------------------------------------------------------------------------
# basic TrueType tables

def head(upem=1000, long_loca=False):
    return (u32(0x00010000) + u32(0x00010000) + u32(0) + u32(0x5F0F3CF5) + u16(0) + u16(upem)
            + b'\0' * 16 + i16(0) * 4 + u16(0) + u16(8) + i16(2) + i16(1 if long_loca else 0) + i16(0))

def hhea(nmetrics, ascent=800, descent=-200):
    return u32(0x00010000) + i16(ascent) + i16(descent) + i16(0) + u16(1000) + i16(0) * 3 + i16(1) + i16(0) * 6 + i16(0) + u16(nmetrics)

def maxp(n):
    return u32(0x00010000) + u16(n) + b'\0' * 26

def glyf_loca(boxes, long_loca=False):
    g, offs = b'', [0]
    for b in boxes:
        if b is not None:
            g += i16(0) + i16(b[0]) + i16(b[1]) + i16(b[2]) + i16(b[3]) + b'\0\0'
        offs.append(len(g))
    g += b'\0' * 12
    if long_loca:
        return g, b''.join(u32(o) for o in offs)
    return g, b''.join(u16(o // 2) for o in offs)

def hmtx(advs):
    return b''.join(u16(a) + i16(0) for a in advs)

def cmap4_subtable(segs, glyph_array=()):
    """segs: list of (start, end, delta, range_offset_units or None).  range_offset given as index into glyph_array
    of the first glyph of the segment (None = use delta).  A terminating 0xFFFF segment is appended if missing."""
    segs = list(segs)
    if not segs or segs[-1][1] != 0xFFFF:
        segs.append((0xFFFF, 0xFFFF, 1, None))
    n = len(segs)
    length = 16 + 8 * n + 2 * len(glyph_array)
    sr = 1
    while sr * 2 <= n: sr *= 2
    es = sr.bit_length() - 1
    sub = u16(4) + u16(length) + u16(0) + u16(2 * n) + u16(2 * sr) + u16(es) + u16(2 * n - 2 * sr)
    sub += b''.join(u16(s[1]) for s in segs) + u16(0) + b''.join(u16(s[0]) for s in segs)
    sub += b''.join(u16(s[2]) for s in segs)
    ro = b''
    for i, s in enumerate(segs):
        if s[3] is None:
            ro += u16(0)
        else:
            # offset in bytes from this idRangeOffset word to the glyph: (n - i) words to the array + index
            ro += u16(2 * (n - i + s[3]))
    sub += ro + b''.join(u16(g) for g in glyph_array)
    return sub

def cmap12_subtable(groups):
    """groups: list of (start, end, start_gid)"""
    return u16(12) + u16(0) + u32(16 + 12 * len(groups)) + u32(0) + u32(len(groups)) + b''.join(u32(a) + u32(b) + u32(g) for a, b, g in groups)

def cmap_table(subtables):
    """subtables: list of (platform, encoding, bytes) -- records are written in the given order, data in the same order"""
    n = len(subtables)
    hdr = u16(0) + u16(n)
    off = 4 + 8 * n
    recs, body = b'', b''
    for p, e, data in subtables:
        recs += u16(p) + u16(e) + u32(off + len(body))
        body += data
    return hdr + recs + body

def simple_cmap(mapping, mapping12=None):
    """one segment per run of consecutive (cp, gid) pairs"""
    cps = sorted(c for c in mapping if c < 0xFFFF)
    segs = []
    i = 0
    while i < len(cps):
        j = i
        while j + 1 < len(cps) and cps[j + 1] == cps[j] + 1 and mapping[cps[j + 1]] == mapping[cps[j]] + 1:
            j += 1
        segs.append((cps[i], cps[j], (mapping[cps[i]] - cps[i]) & 0xFFFF, None))
        i = j + 1
    subs = [(3, 1, cmap4_subtable(segs))]
    if mapping12:
        cps = sorted(mapping12)
        groups = []
        i = 0
        while i < len(cps):
            j = i
            while j + 1 < len(cps) and cps[j + 1] == cps[j] + 1 and mapping12[cps[j + 1]] == mapping12[cps[j]] + 1:
                j += 1
            groups.append((cps[i], cps[j], mapping12[cps[i]]))
            i = j + 1
        subs.append((3, 10, cmap12_subtable(groups)))
    return cmap_table(subs)

def name_table(records):
    """records: list of (platform, encoding, lang, nameid, text).  Strings are stored UTF-16BE."""
    recs = sorted(records, key=lambda r: (r[0], r[1], r[2], r[3]))
    n = len(recs)
    strings = b''
    out = b''
    for p, e, l, nid, text in recs:
        data = text if isinstance(text, bytes) else text.encode('utf-16-be', 'surrogatepass')
        out += u16(p) + u16(e) + u16(l) + u16(nid) + u16(len(data)) + u16(len(strings))
        strings += data
    return u16(0) + u16(n) + u16(6 + 12 * n) + out + strings

# ---------------------------------------------------------------------------------------------------
# Graphite tables

def feat_table(feats, version=2):
    n = len(feats)
    hdr = u32(0x00020000 if version >= 2 else 0x00010000) + u16(n) + u16(0) + u32(0)
    fsize = 16 if version >= 2 else 12
    off = 12 + fsize * n
    recs, sets = b'', b''
    for f in feats:
        ns = len(f['settings'])
        if version >= 2:
            recs += u32(f['id']) + u16(ns) + u16(0) + u32(off + len(sets)) + u16(f.get('flags', 0)) + u16(f.get('name', 0))
        else:
            recs += u16(f['id']) + u16(ns) + u32(off + len(sets)) + u16(f.get('flags', 0)) + u16(f.get('name', 0))
        for v, nm in f['settings']:
            sets += i16(v if v < 0x8000 else v - 0x10000) + u16(nm)
    return hdr + recs + sets

def sill_table(langs):
    n = len(langs)
    hdr = u32(0x00010000) + u16(n) + u16(0) * 3
    off = 12 + 8 * (n + 1)
    recs, sets = b'', b''
    for l in langs:
        recs += u32(l['tag']) + u16(len(l['settings'])) + u16(off + len(sets))
        for fid, v in l['settings']:
            sets += u32(fid) + u16(v) + u16(0)
    recs += u32(0x80808080) + u16(0) + u16(off + len(sets))
    return hdr + recs + sets

def glat_gloc(glyphs, nattrs, version=1, long_fmt=False, octaboxes=False):
    """glyphs: list of {'attrs': {id: val}, 'oct': None | {'bitmap': b, 'diag': [4 bytes], 'subs': [[8 bytes]...]}}"""
    if version >= 3:
        glat = u32(0x00030000) + u32(1 if octaboxes else 0)
    elif version == 2:
        glat = u32(0x00020000)
    else:
        glat = u32(0x00010000)
    locs = []
    for g in glyphs:
        locs.append(len(glat))
        attrs = {int(k): v for k, v in g.get('attrs', {}).items()}
        if version >= 3:
            o = g.get('oct')
            if o:
                glat += u16(o['bitmap']) + bytes(o['diag']) + b''.join(bytes(s) for s in o['subs'])
            else:
                glat += u16(0) + bytes([0, 255, 0, 255])
        ks = sorted(k for k in attrs if attrs[k] != 0 and k < nattrs)
        runs = []
        i = 0
        while i < len(ks):
            j = i
            while j + 1 < len(ks) and ks[j + 1] == ks[j] + 1:
                j += 1
            runs.append((ks[i], [attrs[k] for k in ks[i:j + 1]]))
            i = j + 1
        if not runs:
            runs = [(0, [0])]                    # the loader wants at least one run per glyph
        for k, vals in runs:
            if version >= 2:
                glat += u16(k) + u16(len(vals)) + b''.join(i16(v) for v in vals)
            else:
                glat += u8(k) + u8(len(vals)) + b''.join(i16(v) for v in vals)
    locs.append(len(glat))
    if long_fmt:
        gloc = u32(0x00010000) + u16(1) + u16(nattrs) + b''.join(u32(l) for l in locs)
    else:
        gloc = u32(0x00010000) + u16(0) + u16(nattrs) + b''.join(u16(l) for l in locs)
    return glat, gloc

# ---------------------------------------------------------------------------------------------------
# bytecode helpers

def push_lit(n):
    n = ((n + 0x80000000) & 0xFFFFFFFF) - 0x80000000
    if -128 <= n <= 127: return bytes([OP['PUSH_BYTE'], n & 0xFF])
    if -32768 <= n <= 32767: return bytes([OP['PUSH_SHORT']]) + i16(n)
    return bytes([OP['PUSH_LONG']]) + struct.pack('>i', n)

def compile_expr(e, base=0):
    """base: value to add to every slot ref (0 for normal items, 1 during an inserted item)"""
    k = e[0]
    if k == 'lit': return push_lit(e[1])
    if k == 'gattr':
        if e[1] < 256: return bytes([OP['PUSH_GLYPH_ATTR_OBS'], e[1], (e[2] + base) & 0xFF])
        return bytes([OP['PUSH_GLYPH_ATTR']]) + u16(e[1]) + u8(e[2] + base)
    if k == 'user': return bytes([OP['PUSH_ISLOT_ATTR'], SLAT['user'], (e[2] + base) & 0xFF, e[1]])
    if k == 'feat': return bytes([OP['PUSH_FEAT'], e[1], (e[2] + base) & 0xFF])
    if k == 'sattr': return bytes([OP['PUSH_SLOT_ATTR'], e[1], (e[2] + base) & 0xFF])
    if k == 'bin': return compile_expr(e[2], base) + compile_expr(e[3], base) + bytes([OP[BINOPS[e[1]]]])
    if k == 'not': return compile_expr(e[1], base) + bytes([OP['NOT']])
    if k == 'neg': return compile_expr(e[1], base) + bytes([OP['NEG']])
    if k == 'cond': return compile_expr(e[1], base) + compile_expr(e[2], base) + compile_expr(e[3], base) + bytes([OP['COND']])
    raise ValueError('bad expr %r' % (e,))

def compile_constraint(c):
    if not c or (not c.get('global') and not c.get('items')):
        return b''
    code = b''
    first = True
    if c.get('global'):
        code += compile_expr(c['global'])
        first = False
    for k in sorted(c.get('items', {}), key=int):
        body = compile_expr(c['items'][k])
        if len(body) > 255:
            raise ValueError('constraint item too long')
        # a skipped context item pushes `true`; the AND that folds it into the running result sits outside the skip
        code += bytes([OP['CNTXT_ITEM'], int(k) & 0xFF, len(body)]) + body
        if not first:
            code += bytes([OP['AND']])
        first = False
    return code + bytes([OP['POP_RET']])

def compile_action(rule, pre):
    """GDL-lite action items -> bytecode, in the code shapes grcompiler emits."""
    code = b''
    inpos = 0                      # input items consumed so far (body relative)
    for it in rule['actions']:
        ins = bool(it.get('insert'))
        # map index (body relative) at which this item's code runs
        mp = inpos - 1 if ins else inpos
        rel = lambda i: (i - mp) & 0xFF
        if ins:
            code += bytes([OP['INSERT']])
        op = it.get('op', 'keep')
        if op == 'glyph':
            code += bytes([OP['PUT_GLYPH_8'], it['cls']]) if it['cls'] < 256 else bytes([OP['PUT_GLYPH']]) + u16(it['cls'])
        elif op == 'subs':
            if it['in'] < 256 and it['out'] < 256:
                code += bytes([OP['PUT_SUBS_8'], rel(it['ref']), it['in'], it['out']])
            else:
                code += bytes([OP['PUT_SUBS'], rel(it['ref'])]) + u16(it['in']) + u16(it['out'])
        elif op == 'copy':
            code += bytes([OP['PUT_COPY'], rel(it['ref'])])
        elif op == 'delete':
            code += bytes([OP['DELETE']])
        elif op == 'keep':
            if it.get('attrs') or it.get('assoc'):
                code += bytes([OP['PUT_COPY'], 0])
        if it.get('assoc'):
            code += bytes([OP['ASSOC'], len(it['assoc'])]) + bytes(rel(r) for r in it['assoc'])
        for kind, arg, ex in it.get('attrs', []):
            if kind == 'attach':
                code += push_lit(((arg - mp + 128) & 0xFF) - 128) + bytes([OP['ATTR_SET_SLOT'], SLAT['attach']])
                continue
            # expression refs are relative to the current *input* item; shift by one inside an inserted item
            code += compile_expr(ex, 1 if ins else 0)
            if kind == 'user':
                code += bytes([OP['IATTR_SET'], SLAT['user'], arg])
            elif kind == 'slat':
                code += bytes([OP['ATTR_SET'], arg])
            elif kind == 'slat_add':
                code += bytes([OP['ATTR_ADD'], arg])
            else:
                code += bytes([OP['ATTR_SET'], {'advx': 0, 'advy': 1, 'attx': 3, 'atty': 4, 'withx': 8, 'withy': 9, 'break': 14, 'insert': 17,
                                                'shiftx': 20, 'shifty': 21}[kind]])
        if op == 'keep' and not it.get('attrs') and not it.get('assoc') and not ins:
            code += bytes([OP['COPY_NEXT']])
        else:
            code += bytes([OP['NEXT']])
        if not ins:
            inpos += 1
    adj = rule.get('adjust', 0)
    if adj == 0:
        code += bytes([OP['RET_ZERO']])
    else:
        code += push_lit(adj) + bytes([OP['POP_RET']])
    return code

# ---------------------------------------------------------------------------------------------------
# class map, FSM, pass, Silf

def classmap(classes, nlinear, version):
    """classes[0:nlinear] linear (output) classes, the rest lookup (input) classes."""
    n = len(classes)
    wide = version >= 0x00040000
    hdr_len = 4 + (4 if wide else 2) * (n + 1)
    data, offs = b'', []
    for ci, c in enumerate(classes):
        offs.append(hdr_len + len(data))
        if ci < nlinear:
            data += b''.join(u16(g) for g in c)
        else:
            pairs = sorted((g, i) for i, g in enumerate(c))
            # a glyph may appear once only in a lookup class: keep the first index
            seen, pp = set(), []
            for g, i in sorted(pairs, key=lambda x: (x[0], x[1])):
                if g not in seen:
                    seen.add(g); pp.append((g, i))
            k = len(pp)
            sr = 1
            while sr * 2 <= k: sr *= 2
            data += u16(k) + u16(sr) + u16(sr.bit_length() - 1) + u16(k - sr) + b''.join(u16(g) + u16(i) for g, i in pp)
    offs.append(hdr_len + len(data))
    return u16(n) + u16(nlinear) + b''.join((u32(o) if wide else u16(o)) for o in offs) + data

def build_fsm(rule_items, nglyphs):
    """rule_items: list (per rule) of list of glyph sets.  Subset construction over glyph columns."""
    sigs, gcol = {}, {}
    for g in range(nglyphs):
        sig = tuple((ri, k) for ri, items in enumerate(rule_items) for k, cl in enumerate(items) if g in cl)
        if not sig:
            continue
        if sig not in sigs:
            sigs[sig] = len(sigs)
        gcol[g] = sigs[sig]
    ncols = len(sigs)
    colsig = {v: set(k) for k, v in sigs.items()}
    start = frozenset((ri, 0) for ri in range(len(rule_items)))
    states, index, trans = [start], {start: 0}, []
    i = 0
    while i < len(states):
        st = states[i]
        row = []
        for c in range(ncols):
            nxt = frozenset((ri, k + 1) for (ri, k) in st if k < len(rule_items[ri]) and (ri, k) in colsig[c])
            if not nxt:
                row.append(None); continue
            if nxt not in index:
                index[nxt] = len(states); states.append(nxt)
            row.append(index[nxt])
        trans.append(row)
        i += 1
    acc = [sorted(ri for (ri, k) in st if k == len(rule_items[ri])) for st in states]
    return gcol, ncols, states, trans, acc

def pass_bytes(p, classes, nglyphs, subtable_off):
    rules = p['rules']
    pre = p.get('pre', 0)
    rule_items = [[set(classes[c]) for c in r['items']] for r in rules]
    gcol, ncols, states, trans, acc = build_fsm(rule_items, nglyphs)
    def is_trans(i): return any(t is not None for t in trans[i])
    def is_acc(i): return bool(acc[i])
    order = [i for i in range(len(states)) if is_trans(i) and not is_acc(i)]
    if not order or order[0] != 0:
        raise ValueError('start state is not transitional (empty class?)')
    order += [i for i in range(len(states)) if is_trans(i) and is_acc(i)]
    order += [i for i in range(len(states)) if not is_trans(i) and is_acc(i)]
    if len(order) != len(states):
        raise ValueError('FSM has a dead non-accepting state')
    new = {o: n for n, o in enumerate(order)}
    nstates = len(order)
    ntrans = sum(1 for i in range(len(states)) if is_trans(i))
    nsucc = sum(1 for i in range(len(states)) if is_acc(i))
    ranges = []
    gs = sorted(gcol)
    i = 0
    while i < len(gs):
        j = i
        while j + 1 < len(gs) and gs[j + 1] == gs[j] + 1 and gcol[gs[j + 1]] == gcol[gs[i]]:
            j += 1
        ranges.append((gs[i], gs[j], gcol[gs[i]])); i = j + 1
    orulemap, rulemap = [], []
    for o in order:
        if is_acc(o):
            # any order is valid on disk (the loader sorts by precedence): emit the reverse of precedence order
            orulemap.append(len(rulemap)); rulemap += list(reversed(acc[o]))
    orulemap.append(len(rulemap))
    ccode, ocons = b'', []
    cons = [bytes.fromhex(r['raw_constraint']) if r.get('raw_constraint') is not None else compile_constraint(r.get('constraint')) for r in rules]
    if any(cons):
        ccode = b'\0'
    for c in cons:
        ocons.append(len(ccode) if c else 0)
        ccode += c
    ocons.append(len(ccode))
    acode, oact = b'', []
    for r in rules:
        oact.append(len(acode))
        acode += bytes.fromhex(r['raw_action']) if r.get('raw_action') is not None else compile_action(r, pre)
    oact.append(len(acode))
    pcons = b''
    if p.get('pconstraint'):
        pcons = compile_expr(p['pconstraint']) + bytes([OP['POP_RET']])
    if p.get('raw_pconstraint') is not None:
        pcons = bytes.fromhex(p['raw_pconstraint'])
    body = b''.join(u16(a) + u16(b) + u16(c) for a, b, c in ranges)
    body += b''.join(u16(o) for o in orulemap)
    body += b''.join(u16(r) for r in rulemap)
    body += u8(pre) + u8(pre)
    body += u16(0)
    body += b''.join(u16(len(r['items'])) for r in rules)
    body += b''.join(u8(pre) for r in rules)
    body += u8(p.get('colthreshold', 0)) + u16(len(pcons))
    body += b''.join(u16(o) for o in ocons) + b''.join(u16(o) for o in oact)
    for o in order:
        if is_trans(o):
            body += b''.join(u16(new[t] if t is not None else 0) for t in trans[o])
    body += u8(0)
    hdr_len = 40
    pc = subtable_off + hdr_len + len(body)
    rc = pc + len(pcons)
    ac = rc + len(ccode)
    hdr = u8(p.get('flags', 0) | (0x20 if p.get('reverse') else 0)) + u8(p.get('maxloop', 5)) + u8(len(rules[0]['items']) if rules else 1) + u8(pre)
    hdr += u16(len(rules)) + u16(0) + u32(pc) + u32(rc) + u32(ac) + u32(0)
    hdr += u16(nstates) + u16(ntrans) + u16(nsucc) + u16(ncols) + u16(len(ranges)) + u16(0) * 3
    assert len(hdr) == 40
    return hdr + body + pcons + ccode + acode

# glyph attribute ids reserved by the synthesiser
A_PSEUDO, A_BREAK, A_BIDI, A_MIRROR, A_MIRROR2, A_FIRST_FREE = 0, 1, 2, 3, 4, 5

def silf_table(spec):
    version = spec.get('silf_version', 0x00040000)
    nglyphs = len(spec['glyphs'])
    passes = spec['passes']
    npass = len(passes)
    nsubst = spec.get('nsubst', npass)
    classes = spec['classes']
    nlinear = spec.get('nlinear', len(classes))      # by default every class is linear (also usable as input)
    sub = b''
    if version >= 0x00030000:
        sub += u32(0x00030000) + u16(0) + u16(0)
    sub += u16(nglyphs - 1) + i16(spec.get('extra_ascent', 0)) + i16(spec.get('extra_descent', 0))
    sub += u8(npass) + u8(min(spec.get('ilb', 0), nsubst)) + u8(nsubst) + u8(spec.get('ijust', npass)) + u8(spec.get('ibidi', 0xFF)) + u8(spec.get('silf_flags', 0))
    sub += u8(2) + u8(8)
    sub += u8(A_PSEUDO) + u8(A_BREAK) + u8(A_BIDI) + u8(A_MIRROR) + u8(spec.get('apassbits', 0))
    justs = spec.get('justs', [])
    sub += u8(len(justs)) + b''.join(bytes(j) + b'\0' * 4 for j in justs)
    sub += u16(0) + u8(spec.get('nuser', 4)) + u8(0) + u8(spec.get('dir', 0) + 1) + u8(spec.get('acollision', 0)) + b'\0' * 3
    sub += u8(0) + u8(0)
    scripts = spec.get('scripts', [])
    sub += u8(len(scripts)) + b''.join(u32(s) for s in scripts)
    sub += u16(spec.get('lbgid', 0))
    opasses_at = len(sub)
    sub += u32(0) * (npass + 1)
    pseudos = spec.get('pseudos', [])
    sub += u16(len(pseudos)) + u16(0) * 3 + b''.join(u32(u) + u16(g) for u, g in pseudos)
    sub += classmap(classes, nlinear, version)
    offs = []
    for p in passes:
        offs.append(len(sub))
        sub += pass_bytes(p, classes, nglyphs, len(sub))
    offs.append(len(sub))
    sub = sub[:opasses_at] + b''.join(u32(o) for o in offs) + sub[opasses_at + 4 * (npass + 1):]
    # 'silf_subtables': n > 1 writes n Silf sub-tables; the extra ones are copies of the first whose extraAscent is 0x100 * k (offsets inside a
    # sub-table are relative to its start, so a copy is valid anywhere).  The engine uses sub-table 0 for every script.
    nsubt = max(1, int(spec.get('silf_subtables', 1)))
    ea = 10 if version >= 0x00030000 else 2
    subs = [sub] + [sub[:ea] + i16(0x100 * k) + sub[ea + 2:] for k in range(1, nsubt)]
    hdr = u32(version) + (u32(spec.get('compiler_version', 0x00050000)) if version >= 0x00030000 else b'') + u16(nsubt) + u16(0)
    at = len(hdr) + 4 * nsubt
    offs = []
    for sb in subs:
        offs.append(at); at += len(sb)
    return hdr + b''.join(u32(o) for o in offs) + b''.join(subs)

def build_tables(spec):
    gl = spec['glyphs']
    n = len(gl)
    long_loca = bool(spec.get('long_loca'))
    g, l = glyf_loca([x.get('bbox') for x in gl], long_loca)
    glat, gloc = glat_gloc(gl, spec.get('ngattr', 8), spec.get('glat_version', 1), spec.get('gloc_long', False), spec.get('octaboxes', False))
    cm = {int(k): v for k, v in spec['cmap'].items()}
    cm12 = {int(k): v for k, v in spec['cmap12'].items()} if spec.get('cmap12') else None
    t = {b'head': head(spec.get('upem', 1000), long_loca), b'hhea': hhea(n), b'hmtx': hmtx([x.get('adv', 0) for x in gl]), b'maxp': maxp(n),
         b'loca': l, b'glyf': g, b'cmap': spec['raw_cmap'] if spec.get('raw_cmap') else simple_cmap(cm, cm12), b'Glat': glat, b'Gloc': gloc, b'Silf': silf_table(spec)}
    if spec.get('feats'):
        t[b'Feat'] = feat_table(spec['feats'], spec.get('feat_version', 2))
    if spec.get('langs'):
        t[b'Sill'] = sill_table(spec['langs'])
    if spec.get('names'):
        t[b'name'] = name_table([tuple(r) for r in spec['names']])
    return t

def build_font(spec):
    import sfnt
    return sfnt.build(build_tables(spec))
