#!/usr/bin/env python3
"""Build /repo/src (current working tree) plus the /verif harness into /verif/build/<variant>/.

Incremental (depfile based), parallel, protected by a file lock so that several checks may call it
at once.  Usage:  build.py [--all | variant ...] [--targets t1,t2]   (default: asan-direct, all targets)
Exit 0 on success, 2 on build failure (never 1: 1 is reserved for "violation").
"""
import os, sys, subprocess, fcntl, shlex, glob, time
from concurrent.futures import ThreadPoolExecutor

VERIF = os.path.dirname(os.path.abspath(__file__))
REPO = os.environ.get('VERIF_REPO', '/repo')
BUILD = os.environ.get('VERIF_BUILD', os.path.join(VERIF, 'build'))
HARNESS = os.path.join(VERIF, 'harness')

COMMON = ['-std=gnu++17', '-g', '-O1', '-fno-rtti', '-fno-exceptions', '-fno-omit-frame-pointer',
          '-DGRAPHITE2_NTRACING', '-DGRAPHITE2_STATIC', '-DNDEBUG', '-DGRAPHITE2_VERIF',
          '-I' + REPO + '/include', '-I' + REPO + '/src', '-I' + HARNESS, '-w']

VARIANTS = {
    'asan-direct': dict(cxx='clang++', machine='direct',
                        san=['-fsanitize=fuzzer-no-link,address,undefined', '-fno-sanitize-recover=undefined'],
                        link=['-fsanitize=address,undefined']),
    'asan-call': dict(cxx='clang++', machine='call',
                      san=['-fsanitize=fuzzer-no-link,address,undefined', '-fno-sanitize-recover=undefined'],
                      link=['-fsanitize=address,undefined']),
    'tsan-direct': dict(cxx='clang++', machine='direct', san=['-fsanitize=thread'], link=['-fsanitize=thread']),
}

# harness programs: name -> (source, kind)  kind: 'exe' plain main(), 'fuzz' libFuzzer target
PROGRAMS = {
    'grdrv': ('grdrv.cpp', 'exe'),
    'fz_face': ('fz_face.cpp', 'fuzz'),
    'fz_shape': ('fz_shape.cpp', 'fuzz'),
    'fz_lz4': ('fz_lz4.cpp', 'fuzz'),
    'enum_utf': ('enum_utf.cpp', 'exe'),
    'enum_tag': ('enum_tag.cpp', 'exe'),
    'enum_cmap': ('enum_cmap.cpp', 'exe'),
    'enum_face': ('enum_face.cpp', 'exe'),
    'pbt_zones': ('pbt_zones.cpp', 'exe'),
    'pbt_coll': ('pbt_coll.cpp', 'exe'),
    'pbt_vm': ('pbt_vm.cpp', 'exe'),
    'pbt_lz4': ('pbt_lz4.cpp', 'exe'),
    'mt_shape': ('mt_shape.cpp', 'exe'),
}
# which programs exist per variant (None = all that have sources)
VARIANT_PROGRAMS = {
    'asan-direct': None,
    'asan-call': ['grdrv', 'pbt_vm'],
    'tsan-direct': ['mt_shape'],
}


def lib_sources(machine):
    out = []
    for f in sorted(glob.glob(REPO + '/src/*.cpp')):
        b = os.path.basename(f)
        if b in ('direct_machine.cpp', 'call_machine.cpp'):
            if b != machine + '_machine.cpp':
                continue
        if b == 'json.cpp':
            continue  # tracing only
        out.append(f)
    return out


def needs_rebuild(obj, cmd_sig):
    dep = obj[:-2] + '.d'
    sig = obj[:-2] + '.cmd'
    if not os.path.exists(obj) or not os.path.exists(dep) or not os.path.exists(sig):
        return True
    try:
        if open(sig).read() != cmd_sig:
            return True
        mt = os.path.getmtime(obj)
        txt = open(dep).read().replace('\\\n', ' ')
        deps = txt.split(':', 1)[1].split()
        for d in deps:
            if os.path.getmtime(d) > mt:
                return True
    except (OSError, IndexError):
        return True
    return False


def compile_one(args):
    src, obj, cmd = args
    sig = ' '.join(cmd)
    if not needs_rebuild(obj, sig):
        return None
    r = subprocess.run(cmd, stdout=subprocess.PIPE, stderr=subprocess.STDOUT, text=True)
    if r.returncode != 0:
        return 'COMPILE FAILED: %s\n%s' % (src, r.stdout)
    open(obj[:-2] + '.cmd', 'w').write(sig)
    return ''


def build_variant(name, targets=None):
    v = VARIANTS[name]
    out = os.path.join(BUILD, name)
    os.makedirs(out, exist_ok=True)
    flags = COMMON + v['san']
    jobs = []
    libobjs = []
    for src in lib_sources(v['machine']):
        obj = os.path.join(out, 'lib_' + os.path.basename(src)[:-4] + '.o')
        libobjs.append(obj)
        jobs.append((src, obj, [v['cxx']] + flags + ['-MMD', '-MF', obj[:-2] + '.d', '-c', src, '-o', obj]))
    progs = VARIANT_PROGRAMS.get(name) or list(PROGRAMS)
    if targets:
        progs = [p for p in progs if p in targets]
    progs = [p for p in progs if os.path.exists(os.path.join(HARNESS, PROGRAMS[p][0]))]
    pobjs = {}
    for p in progs:
        src = os.path.join(HARNESS, PROGRAMS[p][0])
        obj = os.path.join(out, 'h_' + p + '.o')
        pobjs[p] = obj
        # harness code: no -fno-exceptions restrictions needed, keep the same flags for ABI simplicity
        jobs.append((src, obj, [v['cxx']] + flags + ['-MMD', '-MF', obj[:-2] + '.d', '-c', src, '-o', obj]))
    with ThreadPoolExecutor(max_workers=16) as ex:
        res = list(ex.map(compile_one, jobs))
    errs = [r for r in res if r]
    if errs:
        sys.stderr.write('\n'.join(errs) + '\n')
        return False
    rebuilt_lib = any(r == '' for r, j in zip(res, jobs) if j[1] in libobjs)
    lib = os.path.join(out, 'libgr.a')
    if rebuilt_lib or not os.path.exists(lib):
        if os.path.exists(lib):
            os.unlink(lib)
        r = subprocess.run(['ar', 'rcs', lib] + libobjs, stdout=subprocess.PIPE, stderr=subprocess.STDOUT, text=True)
        if r.returncode != 0:
            sys.stderr.write(r.stdout)
            return False
    for p in progs:
        exe = os.path.join(out, p)
        obj = pobjs[p]
        if (not os.path.exists(exe) or os.path.getmtime(exe) < os.path.getmtime(obj)
                or os.path.getmtime(exe) < os.path.getmtime(lib)):
            link = list(v['link'])
            if PROGRAMS[p][1] == 'fuzz':
                link = ['-fsanitize=fuzzer,address,undefined']
            cmd = [v['cxx'], '-g', obj, lib, '-o', exe + '.tmp'] + link + ['-lpthread']
            r = subprocess.run(cmd, stdout=subprocess.PIPE, stderr=subprocess.STDOUT, text=True)
            if r.returncode != 0:
                sys.stderr.write('LINK FAILED: %s\n%s\n' % (p, r.stdout))
                return False
            os.replace(exe + '.tmp', exe)
    return True


def main(argv):
    variants = []
    targets = None
    i = 0
    while i < len(argv):
        a = argv[i]
        if a == '--all':
            variants = list(VARIANTS)
        elif a == '--targets':
            i += 1
            targets = argv[i].split(',')
        else:
            variants.append(a)
        i += 1
    if not variants:
        variants = ['asan-direct']
    os.makedirs(BUILD, exist_ok=True)
    t0 = time.time()
    with open(os.path.join(BUILD, '.lock'), 'w') as lk:
        fcntl.flock(lk, fcntl.LOCK_EX)
        for v in variants:
            if not build_variant(v, targets):
                print('build.py: FAILED variant', v, file=sys.stderr)
                return 2
    if os.environ.get('VERIF_VERBOSE'):
        print('build.py: ok %s in %.1fs' % (','.join(variants), time.time() - t0), file=sys.stderr)
    return 0


if __name__ == '__main__':
    sys.exit(main(sys.argv[1:]))
