// Whole-API scenario commands of grdrv: histories on one face (C08, C16, C18), justification (C19).
#pragma once
#include "drv_common.h"
#include "shape_case.h"
#include "face_report.h"
#include <algorithm>
#include <cmath>

extern "C" int __lsan_do_recoverable_leak_check();

// ---------------------------------------------------------------------------------------------
// 'H' history.  Request: u32 fontid, u8 src, u8 opts, ReportOpts, u16 nops, ops...
// Every op that yields an observation appends one JSON value to "obs".
//  1 make_seg     i16 font_idx(-1 none) i16 fv_idx(-1 none) u8 keep  ShapeParams      -> {"seg":..,"labels":..,"dump":..}
//  2 destroy_seg  u16 idx
//  3 make_font    f32 ppm
//  4 destroy_font u16 idx
//  5 fv_for_lang  u32 tag
//  6 fv_clone     u16 idx
//  7 fv_set       u16 fv_idx u16 fref_idx(visible index) u16 value                      -> {"ok":0/1}
//  8 fv_destroy   u16 idx
//  9 fv_get_all   u16 idx                                                               -> [values]
// 10 label        u16 fref_idx i16 setting(-1 = feature label) u16 lang u8 enc          -> label json
// 11 char_support u32 cp                                                                -> 0/1
// 12 report                                                                             -> face report
// 13 find_fref    u32 id                                                                -> visible index or -1
// 14 justify      u16 seg_idx u16 start_pos i16 font_idx f64 width u8 flags i16 first_pos i16 last_pos -> {"w":..,"lines":..}
// 15 linebreak    u16 seg_idx u16 pos
// 16 dump_seg     u16 seg_idx                                                           -> dump (+invariants) of a kept segment
// 18 positions    u16 seg_idx                                                           -> origins of a kept segment's slots
// 17 label_by_id  u32 feature id, i16 setting(-1 = feature label) u16 lang u8 enc         -> label json (via gr_face_find_fref)
struct HSeg { gr_segment *seg = nullptr; std::vector<const gr_slot *> order; std::vector<size_t> line_starts; const gr_font *font = nullptr; };

inline std::string line_state(HSeg &hs) {
    // per line: slots reached by next from the recorded line start, with prev consistency; as positions in the original order
    std::map<const gr_slot *, int> pos;
    for (size_t i = 0; i < hs.order.size(); ++i) pos[hs.order[i]] = int(i);
    std::string s = "[";
    for (size_t li = 0; li < hs.line_starts.size(); ++li) {
        if (li) s += ",";
        const gr_slot *p = hs.order[hs.line_starts[li]];
        s += "{\"prev0\":" + std::to_string(gr_slot_prev_in_segment(p) == nullptr ? 1 : 0) + ",\"walk\":[";
        const gr_slot *last = nullptr; size_t k = 0; bool prev_ok = true, finite = true;
        for (; p && k <= hs.order.size() + 2; p = gr_slot_next_in_segment(p), ++k) {
            if (k) s += ",";
            auto it = pos.find(p);
            s += std::to_string(it == pos.end() ? -1 : it->second);
            if (k && gr_slot_prev_in_segment(p) != last) prev_ok = false;
            if (!std::isfinite(gr_slot_origin_X(p)) || !std::isfinite(gr_slot_origin_Y(p))) finite = false;
            last = p;
        }
        s += "],\"prev_ok\":" + std::to_string(int(prev_ok)) + ",\"finite\":" + std::to_string(int(finite)) + "}";
    }
    return s + "]";
}

inline std::string cmd_history(Reader &rd, std::map<uint32_t, std::vector<uint8_t>> &fonts) {
    uint32_t fid = rd.u32();
    int src = rd.u8();
    unsigned opts = rd.u8();
    auto it = fonts.find(fid);
    if (rd.bad || it == fonts.end()) return "{\"error\":\"bad history request\"}";
    Exact fbuf(it->second);
    std::string obs = "[";
    bool first = true;
    auto emit = [&](const std::string &v) { if (!first) obs += ","; first = false; obs += v; };
    std::string ledger = "null";
    int leaks = -1;
    {
        FaceBox fb;
        hooks().reset();
        make_face(fb, fbuf.p, fbuf.n, src, opts);
        if (!fb.face) return "{\"face\":0,\"lerr\":[" + std::to_string(hooks().load_err) + "," + std::to_string(hooks().load_ctx) + "]}";
        if (fb.mf && (opts & gr_face_preloadAll) == gr_face_preloadAll) fb.mf->frozen = true;
        const gr_face *face = fb.face;
        std::vector<HSeg> segs;
        std::vector<gr_font *> fnts;
        std::vector<gr_feature_val *> fvs;
        unsigned nops = rd.u16();
        for (unsigned oi = 0; oi < nops && !rd.bad; ++oi) {
            unsigned op = rd.u8();
            switch (op) {
            case 1: {
                int fi = int16_t(rd.u16()), vi = int16_t(rd.u16()); bool keep = rd.u8();
                ShapeParams sp = read_shape_params(rd);
                if (rd.bad) break;
                const gr_font *f = (fi >= 0 && size_t(fi) < fnts.size()) ? fnts[fi] : nullptr;
                const gr_feature_val *fv = (vi >= 0 && size_t(vi) < fvs.size()) ? fvs[vi] : nullptr;
                ShapeResult r; gr_segment *kept = nullptr;
                run_shape(face, sp, r, f, fi >= 0, fv, keep ? &kept : nullptr);
                if (keep) {
                    HSeg hs; hs.seg = kept; hs.font = f;
                    if (kept) { for (const gr_slot *p = gr_seg_first_slot(kept); p && hs.order.size() < 100000; p = gr_slot_next_in_segment(p)) hs.order.push_back(p); hs.line_starts.push_back(0); }
                    segs.push_back(hs);
                }
                emit("{" + shape_json(r) + "}");
                break; }
            case 2: { unsigned i = rd.u16(); if (i < segs.size() && segs[i].seg) { gr_seg_destroy(segs[i].seg); segs[i].seg = nullptr; } break; }
            case 3: { float ppm = rd.f32(); fnts.push_back(make_any_font(ppm, face)); break; }
            case 4: { unsigned i = rd.u16(); bool used = false; if (i < fnts.size() && fnts[i]) { for (auto &h : segs) if (h.seg && h.font == fnts[i]) used = true; if (!used) { destroy_any_font(fnts[i]); fnts[i] = nullptr; } } break; }
            case 5: { uint32_t tag = rd.u32(); fvs.push_back(gr_face_featureval_for_lang(face, tag)); break; }
            case 6: { unsigned i = rd.u16(); fvs.push_back(i < fvs.size() && fvs[i] ? gr_featureval_clone(fvs[i]) : gr_featureval_clone(nullptr)); break; }
            case 7: {
                unsigned vi = rd.u16(), fi = rd.u16(); uint16_t val = rd.u16();
                int ok = -1;
                if (vi < fvs.size() && fvs[vi]) { const gr_feature_ref *fr = gr_face_fref(face, uint16_t(fi)); if (fr) ok = gr_fref_set_feature_value(fr, val, fvs[vi]); }
                emit("{\"ok\":" + std::to_string(ok) + "}");
                break; }
            case 8: { unsigned i = rd.u16(); if (i < fvs.size() && fvs[i]) { gr_featureval_destroy(fvs[i]); fvs[i] = nullptr; } break; }
            case 9: { unsigned i = rd.u16(); emit(i < fvs.size() && fvs[i] ? featureval_json(face, fvs[i]) : "null"); break; }
            case 10: {
                unsigned fi = rd.u16(); int setting = int16_t(rd.u16()); uint16_t lang = rd.u16(); int enc = rd.u8();
                const gr_feature_ref *fr = gr_face_fref(face, uint16_t(fi));
                if (!fr || (enc != 1 && enc != 2 && enc != 4)) { emit("null"); break; }
                uint32_t len = 0; uint16_t l = lang;
                void *lbl = setting < 0 ? gr_fref_label(fr, &l, gr_encform(enc), &len) : gr_fref_value_label(fr, uint16_t(setting), &l, gr_encform(enc), &len);
                emit("{\"lang\":" + std::to_string(l) + ",\"l\":" + label_json(lbl, enc, len) + "}");
                if (lbl) gr_label_destroy(lbl);
                break; }
            case 17: {      // label of a feature looked up by id (reaches hidden features, which gr_face_fref does not enumerate)
                uint32_t id = rd.u32(); int setting = int16_t(rd.u16()); uint16_t lang = rd.u16(); int enc = rd.u8();
                const gr_feature_ref *fr = gr_face_find_fref(face, id);
                if (!fr || (enc != 1 && enc != 2 && enc != 4)) { emit("null"); break; }
                uint32_t len = 0; uint16_t l = lang;
                void *lbl = setting < 0 ? gr_fref_label(fr, &l, gr_encform(enc), &len) : gr_fref_value_label(fr, uint16_t(setting), &l, gr_encform(enc), &len);
                emit("{\"lang\":" + std::to_string(l) + ",\"l\":" + label_json(lbl, enc, len) + "}");
                if (lbl) gr_label_destroy(lbl);
                break; }
            case 11: { uint32_t cp = rd.u32(); emit(std::to_string(gr_face_is_char_supported(face, cp, 0))); break; }
            case 12: { ReportOpts ro; ro.label_langs = {0x0409}; ro.chars = {0x20, 0x41, 0x61, 0x62, 0x1000, 0x627, 0xFFFF, 0x10000}; emit(face_report(face, ro)); break; }
            case 13: { uint32_t id = rd.u32(); const gr_feature_ref *fr = gr_face_find_fref(face, id); int idx = -1; unsigned n = gr_face_n_fref(face); for (unsigned i = 0; fr && i < n; ++i) if (gr_face_fref(face, uint16_t(i)) == fr) idx = int(i); emit(std::to_string(fr ? idx : -2)); break; }
            case 14: {
                unsigned si = rd.u16(), start = rd.u16(); int fi = int16_t(rd.u16()); double width = rd.f64(); unsigned fl = rd.u8(); int fp = int16_t(rd.u16()), lp = int16_t(rd.u16());
                if (rd.bad || si >= segs.size() || !segs[si].seg || start >= segs[si].order.size()) { emit("null"); break; }
                HSeg &hs = segs[si];
                const gr_font *f = (fi >= 0 && size_t(fi) < fnts.size()) ? fnts[fi] : nullptr;
                const gr_slot *pf = (fp >= 0 && size_t(fp) < hs.order.size()) ? hs.order[fp] : nullptr;
                const gr_slot *pl = (lp >= 0 && size_t(lp) < hs.order.size()) ? hs.order[lp] : nullptr;
                float w = gr_seg_justify(hs.seg, hs.order[start], f, width, gr_justFlags(fl), pf, pl);
                seginv::query_all(face, f, hs.seg, hs.order, false);      // every query on the justified segment (per-slot justification records now exist)
                std::string gids = "[";
                for (size_t i = 0; i < hs.order.size(); ++i) { if (i) gids += ","; gids += std::to_string(gr_slot_gid(hs.order[i])); }
                emit("{\"w\":" + jnum(w) + ",\"lines\":" + line_state(hs) + ",\"gids\":" + gids + "]}");
                break; }
            case 15: {
                unsigned si = rd.u16(), pos = rd.u16();
                if (si < segs.size() && segs[si].seg && pos > 0 && pos < segs[si].order.size()) {
                    HSeg &hs = segs[si];
                    bool dup = false; for (size_t x : hs.line_starts) if (x == pos) dup = true;
                    if (!dup) { gr_slot_linebreak_before(const_cast<gr_slot *>(hs.order[pos])); hs.line_starts.push_back(pos); std::sort(hs.line_starts.begin(), hs.line_starts.end()); }
                }
                break; }
            case 16: {
                unsigned si = rd.u16();
                if (si >= segs.size() || !segs[si].seg) { emit("null"); break; }
                HSeg &hs = segs[si];
                std::string gids = "[";
                for (size_t i = 0; i < hs.order.size(); ++i) { if (i) gids += ","; gids += std::to_string(gr_slot_gid(hs.order[i])); }
                emit("{\"lines\":" + line_state(hs) + ",\"gids\":" + gids + "]}");
                break; }
            case 18: {      // positions of a kept segment's slots, in the original stream order: [[origin x, origin y], ...]
                unsigned si = rd.u16();
                if (si >= segs.size() || !segs[si].seg) { emit("null"); break; }
                HSeg &hs = segs[si];
                std::string ps = "[";
                for (size_t i = 0; i < hs.order.size(); ++i) { if (i) ps += ","; ps += "[" + jnum(gr_slot_origin_X(hs.order[i])) + "," + jnum(gr_slot_origin_Y(hs.order[i])) + "]"; }
                emit("{\"pos\":" + ps + "]}");
                break; }
            default: rd.bad = true;
            }
        }
        // orderly teardown: segments, feature values, fonts, then the face
        for (auto &h : segs) if (h.seg) gr_seg_destroy(h.seg);
        for (auto *v : fvs) if (v) gr_featureval_destroy(v);
        for (auto *f : fnts) if (f) destroy_any_font(f);
        fb.destroy();
        if (fb.mf) {
            const MemFace &m = *fb.mf;
            ledger = "{\"gets\":" + std::to_string(m.gets) + ",\"rel\":" + std::to_string(m.releases) + ",\"out\":" + std::to_string(m.outstanding()) + ",\"after_freeze\":" +
                     std::to_string(m.gets_after_freeze) + ",\"errors\":" + std::to_string(m.errors.size()) + "}";
        }
    }
    if (rd.bad) return "{\"error\":\"malformed history\"}";
    return "{\"face\":1,\"obs\":" + obs + "],\"ledger\":" + ledger + "}";
}

// 'K': LeakSanitizer check at quiescence (nothing of the library should be allocated between requests
// except cached faces, which are reachable from the driver's globals and therefore not leaks)
inline std::string cmd_leakcheck() {
    int r = __lsan_do_recoverable_leak_check();
    return "{\"leaks\":" + std::to_string(r) + "}";
}

inline std::string dispatch_scenarios(uint8_t cmd, Reader &rd, std::map<uint32_t, std::vector<uint8_t>> &fonts) {
    if (cmd == 'H') return cmd_history(rd, fonts);
    if (cmd == 'K') return cmd_leakcheck();
    return "";
}
