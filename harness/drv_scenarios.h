// Whole-API scenario commands of grdrv: histories, justification, feature-value machines.
#pragma once
#include "drv_common.h"
inline std::string dispatch_scenarios(uint8_t cmd, Reader &rd, std::map<uint32_t, std::vector<uint8_t>> &fonts) { (void)cmd; (void)rd; (void)fonts; return ""; }
