// libFuzzer target: shaping on accepted-but-odd fonts (C02..C05).
// Input = 64-byte case header + sfnt font.  The semantic oracle (seginv.h, H1 loop bound, borrow ledger)
// runs inside the target; a violation prints "VIOLATE property=Cxx label=..." and traps.
//   FZ_REPORT=Cxx[,Cyy]   only labels of these properties trap (default: all); the others are counted
//   FZ_IGNORE=Cxx:label,..  labels of confirmed known findings: counted, never reported
//   FZ_STATS=path          counters appended as JSON lines at exit / before a trap
#define DRV_DEFINE_HOOKS
#include "drv_common.h"
#include "shape_case.h"
#include "fz_common.h"

static const size_t HDR = 64;

extern "C" size_t LLVMFuzzerCustomMutator(uint8_t *data, size_t size, size_t maxsize, unsigned int seed) {
    return fz::mutate(data, size, maxsize, seed, HDR);
}

static bool reported(const char *prop) {
    static const char *e = getenv("FZ_REPORT");
    if (!e || !*e) return true;
    return strstr(e, prop) != nullptr;
}

static const std::vector<uint32_t> &candidates() {
    static std::vector<uint32_t> c;
    if (c.empty()) {
        auto rng = [&](uint32_t a, uint32_t b) { for (uint32_t x = a; x <= b; ++x) c.push_back(x); };
        rng(0x20, 0x7E); rng(0xA0, 0xFF); rng(0x2B0, 0x2FF); rng(0x300, 0x36F); rng(0x600, 0x6FF); rng(0x900, 0x97F);
        rng(0x1000, 0x109F); rng(0x1E00, 0x1EFF); rng(0x2000, 0x206F); rng(0xFB50, 0xFBFF); rng(0xFE70, 0xFEFF);
    }
    return c;
}

static std::vector<uint32_t> supported(const gr_face *face) {
    std::vector<uint32_t> out;
    for (uint32_t cp : candidates()) if (gr_face_is_char_supported(face, cp, 0)) out.push_back(cp);
    return out;
}

static void put_cp(std::vector<uint8_t> &t, int enc, uint32_t cp) {
    if (enc == 4) { for (int i = 0; i < 4; ++i) t.push_back(uint8_t(cp >> (8 * i))); }
    else if (enc == 2) {
        if (cp >= 0x10000) { cp -= 0x10000; uint16_t a = uint16_t(0xD800 + (cp >> 10)), b = uint16_t(0xDC00 + (cp & 0x3FF)); t.push_back(uint8_t(a)); t.push_back(uint8_t(a >> 8)); t.push_back(uint8_t(b)); t.push_back(uint8_t(b >> 8)); }
        else { t.push_back(uint8_t(cp)); t.push_back(uint8_t(cp >> 8)); }
    } else {
        if (cp < 0x80) t.push_back(uint8_t(cp));
        else if (cp < 0x800) { t.push_back(uint8_t(0xC0 | cp >> 6)); t.push_back(uint8_t(0x80 | (cp & 0x3F))); }
        else if (cp < 0x10000) { t.push_back(uint8_t(0xE0 | cp >> 12)); t.push_back(uint8_t(0x80 | ((cp >> 6) & 0x3F))); t.push_back(uint8_t(0x80 | (cp & 0x3F))); }
        else { t.push_back(uint8_t(0xF0 | cp >> 18)); t.push_back(uint8_t(0x80 | ((cp >> 12) & 0x3F))); t.push_back(uint8_t(0x80 | ((cp >> 6) & 0x3F))); t.push_back(uint8_t(0x80 | (cp & 0x3F))); }
    }
}
static void put_unit(std::vector<uint8_t> &t, int enc, uint32_t u) {
    for (int i = 0; i < enc; ++i) t.push_back(uint8_t(u >> (8 * i)));
}

extern "C" int LLVMFuzzerTestOneInput(const uint8_t *data, size_t size) {
    fz::init_stats();
    fz::Stats &S = fz::stats();
    if (size < HDR + 12 || size > HDR + (1u << 20)) return 0;
    S.add("execs");
    const uint8_t *h = data;
    unsigned opts = h[0] & 7;
    int src = ((h[0] >> 4) & 3) == 3 ? 1 : ((h[0] >> 4) & 3) == 2 ? 2 : 0;
    const int src_arg = src | ((h[0] & 0xC0) == 0xC0 ? 8 : 0);        // 1 in 4: the deprecated *_with_seg_cache constructor of the same kind
    Exact fbuf(data + HDR, size - HDR);
    FaceBox fb;
    hooks().reset();
    make_face(fb, fbuf.p, fbuf.n, src_arg, opts);
    if (!fb.face) {
        S.add("face_rejected");
        if (fb.mf && src == 0 && fb.mf->outstanding() && reported("C16")) fz::violate("C16", "tables-outstanding-after-failed-make_face");
        if (fb.mf && src == 0 && !fb.mf->errors.empty() && reported("C16")) fz::violate("C16", "release-discipline:" + fb.mf->errors[0]);
        return 0;
    }
    S.add("face_loaded");
    if (fb.mf && (opts & gr_face_preloadAll) == gr_face_preloadAll) fb.mf->frozen = true;

    ShapeParams sp;
    sp.enc = h[1] % 3 == 0 ? 1 : h[1] % 3 == 1 ? 2 : 4;
    sp.dir = h[2] & 7;
    static const float ppms[] = {0, -13.f, 12.f, 96.5f, 1e-3f, 4096.f, -20.f, 0.5f};   // negative: hinted font (shape_case.h)
    sp.ppm = (h[0] & 8) ? ppms[h[3] & 7] : 0;
    sp.nul_terminate = h[5] & 1;
    sp.query_all = true;
    sp.all_sub = h[5] & 4;
    sp.want_dump = false;
    sp.check_gid = false;
    static const uint32_t scripts[] = {0, 0, 0x6C61746E, 0x20202020, 0x6D796D72, 0x61726162};
    sp.script = scripts[h[8] % 6];
    if (h[6]) { unsigned nf = gr_face_n_fref(fb.face); if (nf) { const gr_feature_ref *fr = gr_face_fref(fb.face, uint16_t(h[6] % nf)); if (fr) sp.feats.push_back({gr_fref_id(fr), uint16_t(h[7])}); } }
    if (h[9] & 1) { sp.use_lang = true; unsigned nl = gr_face_n_languages(fb.face); sp.lang = nl ? gr_face_lang_by_index(fb.face, uint16_t(h[10] % nl)) : 0x656E2020; }
    std::vector<uint32_t> sup = supported(fb.face);
    unsigned tl = h[4] % 49;
    static const uint32_t special[] = {0x20, 0x20, 0x0A, 0x200C, 0x200D, 0x2028, 0x0301, 0xE000, 0xFFFD, 0xFFFE, 0xFFFF, 0x10000, 0x1F600, 0x10FFFF, 0x7F, 0x01};
    bool illformed = false;
    for (unsigned i = 0; i < tl; ++i) {
        uint8_t b = h[16 + i];
        if (b < 0xD0 && !sup.empty()) put_cp(sp.text, sp.enc, sup[(h[15] * 7u + b) % sup.size()]);
        else if (b < 0xD0) put_cp(sp.text, sp.enc, 0x41 + b % 26);
        else if (b < 0xF0) put_cp(sp.text, sp.enc, special[b & 15]);
        else {   // raw ill-formed unit(s)
            illformed = true;
            static const uint32_t bad8[] = {0x80, 0xBF, 0xC0, 0xC2, 0xE2, 0xF0, 0xF5, 0xFF};
            static const uint32_t bad16[] = {0xD800, 0xDBFF, 0xDC00, 0xDFFF};
            static const uint32_t bad32[] = {0x110000, 0xD800, 0xFFFFFFFFu, 0x7FFFFFFF};
            put_unit(sp.text, sp.enc, sp.enc == 1 ? bad8[b & 7] : sp.enc == 2 ? bad16[b & 3] : bad32[b & 3]);
        }
    }
    // a NUL inside the text would end it early: the generators above never emit U+0000
    if (sp.nul_terminate) {
        size_t n = utfref::decode(sp.enc, sp.text.data(), sp.text.size()).size();
        sp.nchars = int(n + (h[5] >> 4));          // over-estimate by 0..15 (C12 contract)
    }
    ShapeResult r;
    run_shape(fb.face, sp, r);
    if (r.seg) {
        S.add("segs");
        if (r.fired) S.add("segs_rule_fired");
        if (r.st.attached) S.add("segs_with_attachment");
        if (r.st.n != r.st.nc) S.add("segs_length_changed");
        if (r.st.order_differs) S.add("segs_reordered");
        if (illformed) S.add("segs_illformed_text");
        if (sp.ppm > 0) S.add("segs_with_font");
        if (sp.ppm < 0) S.add("segs_with_hinted_font");
        for (auto &p : r.passes) if (p.iters * 2 > pass_bound(p)) S.add("pass_iters_over_half_bound");
        // non-triviality per property (DESIGN section 5); hashes recorded only for the property under report
        static const char *rep = getenv("FZ_REPORT");
        bool nt = false;
        if (!rep || !strcmp(rep, "C02") || !strcmp(rep, "C16")) nt = r.fired > 0;
        else if (!strcmp(rep, "C03")) nt = r.st.n != r.st.nc || r.st.order_differs || r.fired > 0;
        else if (!strcmp(rep, "C04")) nt = r.st.attached > 0;
        else if (!strcmp(rep, "C05")) nt = r.st.assoc_nontrivial;
        if (nt) { S.add("nontrivial"); S.nt.push_back(fz::fnv(data, size)); }
        if (r.st.max_depth >= 2) S.add("segs_attach_depth_ge2");
        if (S.samples.size() < 2 && nt && (S.c["segs"] % 997) == 1) {
            char b[256]; snprintf(b, sizeof b, "{\"input_bytes\":%zu,\"opts\":%u,\"enc\":%d,\"dir\":%d,\"nchars\":%zu,\"slots\":%u,\"rules_fired\":%lu,\"attached\":%u}", size, opts, sp.enc, sp.dir, r.nchars_used, r.st.n, r.fired, r.st.attached);
            S.samples.push_back(b);
        }
    } else { S.add("seg_null"); if (r.fired) S.add("seg_null_after_rules_fired"); }
    for (auto &f : r.findings) {
        std::string key = std::string(f.prop) + ":" + f.label;
        if (f.label == "n_cinfo-ne-nChars" && sp.nul_terminate) continue;      // nChars deliberately over-estimated
        if (f.label == "char-not-covered-by-any-slot" && r.late_assoc) { S.add("known_KF1"); continue; }
        if (fz::ignored(f.prop, f.label)) { S.add(("ignored_" + key).c_str()); continue; }
        if (!reported(f.prop)) { S.add(("other_" + key).c_str()); continue; }
        fz::violate(f.prop, f.label);
    }
    fb.destroy();
    if (fb.mf && src == 0) {
        if (fb.mf->outstanding()) { if (reported("C16")) fz::violate("C16", "tables-outstanding-after-face_destroy"); else S.add("other_C16:outstanding"); }
        if (!fb.mf->errors.empty()) { if (reported("C16")) fz::violate("C16", "release-discipline:" + fb.mf->errors[0]); else S.add("other_C16:discipline"); }
        if (fb.mf->gets_after_freeze) { if (reported("C16")) fz::violate("C16", "get_table-after-preloadAll-construction"); else S.add("other_C16:after_freeze"); }
    }
    return 0;
}
