// C11 enumerator: gr_count_unicode_characters over exhaustive / structured unit strings, each placed so
// that the end of the text is the end of a heap allocation (ASan sees any over-read), in both
// "buffer_end given" and "buffer_end == NULL, NUL terminated" modes, judged by utfjudge.h.
//   usage: enum_utf <part> <nparts> <level>      level 0 = quick, 1 = thorough
#include <graphite2/Segment.h>
#include "enum_common.h"
#include "utfjudge.h"

static unsigned long g_evals = 0, g_nontrivial = 0, g_illformed = 0, g_trunc = 0, g_withnul = 0, g_noerr = 0;
static en::Fails fails;

// One reusable exact-size block per byte length: [block, block+len) ends at the allocation's end.
static uint8_t *g_block[64];
static uint8_t *block(size_t bytes) { if (!g_block[bytes]) g_block[bytes] = static_cast<uint8_t *>(malloc(bytes ? bytes : 1)); return g_block[bytes]; }

template <typename U> static void run_case(int enc, const U *s, size_t units, bool hasnul) {
    const size_t bytes = units * sizeof(U);
    // bounded mode
    {
        uint8_t *b = block(bytes);
        memcpy(b, s, bytes);
        en::current(enc == 1 ? "count8" : enc == 2 ? "count16" : "count32", s, bytes, 0);
        const void *err = nullptr;
        size_t n = gr_count_unicode_characters(gr_encform(enc), b, b + bytes, &err);
        // the header allows pError == NULL ("if no such information is required"): same reads (ASan on the exact block), same count
        if (gr_count_unicode_characters(gr_encform(enc), b, b + bytes, nullptr) != n) fails.add("count-depends-on-whether-pError-is-given");
        ++g_noerr;
        long eo = err ? long((static_cast<const uint8_t *>(err) - b) / long(sizeof(U))) : -1;
        if (err && (static_cast<const uint8_t *>(err) < b)) eo = -2;
        const char *l = utfjudge::judge(enc, b, units, true, n, eo);
        if (l) fails.add(l);
        ++g_evals;
    }
    // NULL-end mode: only meaningful when a NUL terminates the text; the buffer ends right after the first NUL
    if (hasnul) {
        size_t k = 0; while (s[k] != 0) ++k;
        size_t nb = (k + 1) * sizeof(U);
        uint8_t *b = block(nb);
        memcpy(b, s, nb);
        en::current(enc == 1 ? "count8" : enc == 2 ? "count16" : "count32", s, nb, 1);
        const void *err = nullptr;
        size_t n = gr_count_unicode_characters(gr_encform(enc), b, nullptr, &err);
        if (gr_count_unicode_characters(gr_encform(enc), b, nullptr, nullptr) != n) fails.add("count-depends-on-whether-pError-is-given");
        ++g_noerr;
        long eo = err ? long((static_cast<const uint8_t *>(err) - b) / long(sizeof(U))) : -1;
        if (err && (static_cast<const uint8_t *>(err) < b)) eo = -2;
        const char *l = utfjudge::judge(enc, b, k + 1, false, n, eo);
        if (l) fails.add(l);
        ++g_evals;
    }
}

template <typename U> static void do_string(int enc, const U *s, size_t units) {
    bool hasnul = false;
    for (size_t i = 0; i < units; ++i) if (s[i] == 0) { hasnul = true; break; }
    utfjudge::Scan sc = utfjudge::scan(enc, s, units);
    bool multi = false;
    for (size_t i = 0; i < units; ++i) if ((enc == 1 && s[i] >= 0x80) || (enc == 2 && s[i] >= 0xD800 && s[i] <= 0xDFFF) || (enc == 4 && s[i] >= 0xD800)) multi = true;
    if (multi) ++g_nontrivial;                 // non-trivial: contains a multi-unit / non-ASCII / out-of-range unit
    if (!sc.lenient_ok) ++g_illformed;
    if (sc.tail_truncated) ++g_trunc;
    if (hasnul) ++g_withnul;
    run_case<U>(enc, s, units, hasnul);
    if (!hasnul) {                             // same text, NUL terminated, read without an end pointer
        U t[40]; memcpy(t, s, units * sizeof(U)); t[units] = 0;
        size_t nb = (units + 1) * sizeof(U);
        uint8_t *b = block(nb);
        memcpy(b, t, nb);
        en::current(enc == 1 ? "count8" : enc == 2 ? "count16" : "count32", t, nb, 1);
        const void *err = nullptr;
        size_t n = gr_count_unicode_characters(gr_encform(enc), b, nullptr, &err);
        if (gr_count_unicode_characters(gr_encform(enc), b, nullptr, nullptr) != n) fails.add("count-depends-on-whether-pError-is-given");
        ++g_noerr;
        long eo = err ? long((static_cast<const uint8_t *>(err) - b) / long(sizeof(U))) : -1;
        if (err && (static_cast<const uint8_t *>(err) < b)) eo = -2;
        const char *l = utfjudge::judge(enc, b, units + 1, false, n, eo);
        if (l) fails.add(l);
        ++g_evals;
    }
}

template <typename U> static void over_alphabet(int enc, const U *alpha, size_t na, size_t len, unsigned long part, unsigned long nparts) {
    unsigned long total = 1;
    for (size_t i = 0; i < len; ++i) total *= na;
    U s[16];
    for (unsigned long k = part; k < total; k += nparts) {
        unsigned long x = k;
        for (size_t i = 0; i < len; ++i) { s[i] = alpha[x % na]; x /= na; }
        do_string<U>(enc, s, len);
    }
}

int main(int argc, char **argv) {
    en::init();
    unsigned long part = argc > 1 ? strtoul(argv[1], nullptr, 10) : 0, nparts = argc > 2 ? strtoul(argv[2], nullptr, 10) : 1;
    int level = argc > 3 ? atoi(argv[3]) : 0;
    // ---- UTF-8: ALL byte strings of length 0..3 ------------------------------------------------
    uint8_t s8[16];
    if (part == 0) do_string<uint8_t>(1, s8, 0);
    for (unsigned long k = part; k < 256; k += nparts) { s8[0] = uint8_t(k); do_string<uint8_t>(1, s8, 1); }
    for (unsigned long k = part; k < 65536; k += nparts) { s8[0] = uint8_t(k >> 8); s8[1] = uint8_t(k); do_string<uint8_t>(1, s8, 2); }
    for (unsigned long k = part; k < (1ul << 24); k += nparts) { s8[0] = uint8_t(k >> 16); s8[1] = uint8_t(k >> 8); s8[2] = uint8_t(k); do_string<uint8_t>(1, s8, 3); }
    unsigned long exhaustive = g_evals;
    // ---- UTF-8 structured 4..8: every lead class x continuation boundary x NUL position x truncation
    static const uint8_t A27[] = {0x00, 0x41, 0x7F, 0x80, 0x8F, 0x90, 0x9F, 0xA0, 0xBF, 0xC0, 0xC1, 0xC2, 0xDF, 0xE0, 0xE1, 0xEC, 0xED, 0xEE, 0xEF, 0xF0, 0xF1, 0xF3, 0xF4, 0xF5, 0xF7, 0xF8, 0xFF};
    static const uint8_t A9[] = {0x00, 0x41, 0x80, 0xBF, 0xC2, 0xE0, 0xED, 0xF0, 0xF4};
    over_alphabet<uint8_t>(1, A27, 27, 4, part, nparts);
    if (level) over_alphabet<uint8_t>(1, A27, 27, 5, part, nparts);
    over_alphabet<uint8_t>(1, A9, 9, 5, part, nparts);
    over_alphabet<uint8_t>(1, A9, 9, 6, part, nparts);
    over_alphabet<uint8_t>(1, A9, 9, 7, part, nparts);
    if (level) over_alphabet<uint8_t>(1, A9, 9, 8, part, nparts);
    // ---- UTF-16: all single units; all pairs (any unit x boundary unit, both orders); structured <= 6
    static const uint16_t B16[] = {0x0000, 0x0041, 0x0080, 0x07FF, 0x0800, 0xD7FF, 0xD800, 0xD801, 0xDBFF, 0xDC00, 0xDC01, 0xDFFF, 0xE000, 0xFFFD, 0xFFFE, 0xFFFF};
    static const uint16_t B9[] = {0x0000, 0x0041, 0xD7FF, 0xD800, 0xDBFF, 0xDC00, 0xDFFF, 0xE000, 0xFFFF};
    uint16_t s16[16];
    for (unsigned long k = part; k < 65536; k += nparts) { s16[0] = uint16_t(k); do_string<uint16_t>(2, s16, 1); }
    for (unsigned long k = part; k < 65536ul * 16; k += nparts) {
        s16[0] = uint16_t(k >> 4); s16[1] = B16[k & 15]; do_string<uint16_t>(2, s16, 2);
        s16[1] = uint16_t(k >> 4); s16[0] = B16[k & 15]; do_string<uint16_t>(2, s16, 2);
    }
    for (size_t len = 3; len <= 6; ++len) over_alphabet<uint16_t>(2, B9, 9, len, part, nparts);
    // ---- UTF-32: every value 0..0x110100 as a single unit; boundary values in strings of length 1..4
    static const uint32_t C16[] = {0, 1, 0x41, 0x7F, 0x80, 0xD7FF, 0xD800, 0xDFFF, 0xE000, 0xFFFF, 0x10000, 0x10FFFF, 0x110000, 0x7FFFFFFF, 0x80000000u, 0xFFFFFFFFu};
    uint32_t s32[16];
    for (unsigned long k = part; k < 0x110100; k += nparts) { s32[0] = uint32_t(k); do_string<uint32_t>(4, s32, 1); }
    for (size_t len = 1; len <= 4; ++len) over_alphabet<uint32_t>(4, C16, 16, len, part, nparts);
    printf("{\"evaluations\":%lu,\"nontrivial\":%lu,\"illformed\":%lu,\"tail_truncated\":%lu,\"with_nul\":%lu,\"exhaustive_cases\":%lu,\"fails\":%s}\n",
           g_evals, g_nontrivial, g_illformed, g_trunc, g_withnul, exhaustive, fails.json().c_str());
    return 0;
}
