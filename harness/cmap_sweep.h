// Exhaustive cmap sweep of one font: direct vs cached vs an independent OpenType reference (C13).
#pragma once
#include "drv_common.h"
#include "inc/Face.h"
#include "inc/CmapCache.h"
#include "inc/Silf.h"
#include <functional>
#include "lz4ref.h"

namespace ref {
static uint16_t u16(const uint8_t *p) { return uint16_t((p[0] << 8) | p[1]); }
static uint32_t u32(const uint8_t *p) { return (uint32_t(p[0]) << 24) | (p[1] << 16) | (p[2] << 8) | p[3]; }

struct Cmap {
    const uint8_t *f4 = nullptr, *f12 = nullptr;
    size_t l4 = 0, l12 = 0;
    unsigned nseg = 0, ngroups = 0, nranged = 0;
    bool load(const uint8_t *t, size_t n) {
        if (n < 4) return false;
        unsigned nrec = u16(t + 2);
        if (4 + 8 * size_t(nrec) > n) return false;
        static const int pref4[][2] = {{3, 1}, {0, 3}, {0, 2}, {0, 1}, {0, 0}};
        static const int pref12[][2] = {{3, 10}, {0, 4}};
        auto find = [&](int p, int e, int fmt, const uint8_t *&out, size_t &len) {
            for (unsigned i = 0; i < nrec; ++i) {
                const uint8_t *r = t + 4 + 8 * i;
                if (u16(r) == p && u16(r + 2) == e) {
                    size_t off = u32(r + 4);
                    if (off + 4 > n || u16(t + off) != fmt) return false;
                    size_t l = fmt == 4 ? u16(t + off + 2) : (off + 8 <= n ? u32(t + off + 4) : 0);
                    if (l < 16 || off + l > n) return false;
                    out = t + off; len = l; return true;
                }
            }
            return false;
        };
        for (auto &pe : pref4) if (find(pe[0], pe[1], 4, f4, l4)) break;
        for (auto &pe : pref12) if (find(pe[0], pe[1], 12, f12, l12)) break;
        if (f4) { nseg = u16(f4 + 6) / 2; for (unsigned i = 0; i < nseg; ++i) if (u16(f4 + 16 + 6 * nseg + 2 * i)) ++nranged; }
        if (f12) ngroups = u32(f12 + 12);
        return f4 != nullptr;
    }
    uint16_t lookup4(uint32_t c) const {
        if (!f4 || c > 0xFFFF) return 0;
        const uint8_t *endc = f4 + 14, *startc = endc + 2 * nseg + 2, *delta = startc + 2 * nseg, *roff = delta + 2 * nseg;
        for (unsigned i = 0; i < nseg; ++i) {               // linear scan: the obviously correct form of "first segment whose endCode >= c"
            if (u16(endc + 2 * i) >= c) {
                if (u16(startc + 2 * i) > c) return 0;
                unsigned ro = u16(roff + 2 * i);
                if (ro == 0) return uint16_t(c + u16(delta + 2 * i));
                const uint8_t *g = roff + 2 * i + ro + 2 * (c - u16(startc + 2 * i));
                if (g + 2 > f4 + l4) return 0;
                unsigned gid = u16(g);
                return gid ? uint16_t(gid + u16(delta + 2 * i)) : 0;
            }
        }
        return 0;
    }
    uint16_t lookup12(uint32_t c) const {
        if (!f12) return 0;
        for (unsigned i = 0; i < ngroups; ++i) {
            const uint8_t *g = f12 + 16 + 12 * i;
            if (c >= u32(g) && c <= u32(g + 4)) return uint16_t(u32(g + 8) + (c - u32(g)));
        }
        return 0;
    }
    // OpenType: format 12 for supplementary-plane characters, format 4 for the BMP, 0 when unmapped
    uint16_t lookup(uint32_t c) const { return c > 0xFFFF ? (c <= 0x10FFFF ? lookup12(c) : 0) : lookup4(c); }
};
} // namespace ref

struct CmapSweep {
    unsigned long evals = 0, mapped = 0;
    unsigned nseg = 0, nranged = 0, ngroups = 0, npseudo = 0;
    bool loaded = false, nontrivial = false;
    std::map<std::string, std::pair<unsigned long, uint32_t>> fails;    // label -> (count, first usv)
    void fail(const char *l, uint32_t usv) { auto &e = fails[l]; if (!e.first++) e.second = usv; }
    std::string json() const {
        std::string s = "{\"loaded\":" + std::to_string(int(loaded)) + ",\"evaluations\":" + std::to_string(evals) + ",\"mapped\":" + std::to_string(mapped) + ",\"segs\":" + std::to_string(nseg) +
                        ",\"ranged\":" + std::to_string(nranged) + ",\"groups\":" + std::to_string(ngroups) + ",\"pseudos\":" + std::to_string(npseudo) + ",\"nontrivial\":" + std::to_string(int(nontrivial)) + ",\"fails\":{";
        bool first = true;
        for (auto &kv : fails) { if (!first) s += ","; first = false; s += "\"" + kv.first + "\":{\"count\":" + std::to_string(kv.second.first) + ",\"first\":" + std::to_string(kv.second.second) + "}"; }
        return s + "}}";
    }
};

namespace ref {
// The pseudo-glyph map of the first Silf subtable, read by my own parser (never through the library): code point -> glyph.
struct Pseudo {
    std::vector<std::pair<uint32_t, uint16_t>> map;
    bool ok = false;
    bool load(const uint8_t *t, size_t n) {
        std::vector<uint8_t> plain;
        if (n < 8) return false;
        uint32_t ver = u32(t);
        if (ver >= 0x00050000 && (u32(t + 4) >> 27) == 1) {          // compressed layout: version, scheme << 27 | size, LZ4 block
            size_t want = u32(t + 4) & 0x07FFFFFF;
            lz4ref::decode(t + 8, n - 8, plain, want);
            if (plain.size() != want || want < 8) return false;
            t = plain.data(); n = plain.size(); ver = u32(t);
        }
        size_t hp = ver >= 0x00030000 ? 8 : 4;
        if (hp + 4 + 4 > n) return false;
        unsigned nsub = u16(t + hp);
        if (!nsub) return false;
        size_t off = u32(t + hp + 4);
        size_t p = off + (ver >= 0x00030000 ? 8 : 0);                // ruleVersion, passOffset, pseudosOffset
        if (p + 20 > n) return false;
        unsigned npass = t[p + 6];
        unsigned njust = t[p + 19];
        size_t q = p + 20 + 8 * size_t(njust);                       // numLigComp(2) numUser(1) maxComp(1) dir(1) attColl(1) reserved(3) numCrit(1)
        if (q + 10 > n) return false;
        unsigned ncrit = t[q + 9];
        q += 10 + 2 * size_t(ncrit) + 1;                             // critical features, reserved
        if (q + 1 > n) return false;
        unsigned nscript = t[q];
        q += 1 + 4 * size_t(nscript) + 2;                            // script tags, lbGID
        q += 4 * (size_t(npass) + 1);                                // pass offsets
        if (q + 8 > n) return false;
        unsigned np = u16(t + q);
        q += 8;
        if (q + 6 * size_t(np) > n) return false;
        for (unsigned i = 0; i < np; ++i) map.push_back({u32(t + q + 6 * i), u16(t + q + 6 * i + 4)});
        ok = true;
        return true;
    }
    uint16_t lookup(uint32_t usv) const { for (auto &e : map) if (e.first == usv) return e.second; return 0; }
};
} // namespace ref

// note(usv): called before each code point so that a sanitizer abort can name it
// stride > 1: above the BMP visit only every stride-th code point plus everything within 3 of a format-12 group boundary
// (the engine's own format 12 lookup is a linear scan, so fonts with thousands of groups cannot be swept exhaustively quickly)
inline void sweep_font(const std::vector<uint8_t> &font, CmapSweep &out, const std::function<void(uint32_t)> &note, uint32_t only = 0xFFFFFFFEu, unsigned stride = 1) {
    Exact fb0(font.data(), font.size()), fb1(font.data(), font.size());
    FaceBox direct, cached;
    make_face(direct, fb0.p, fb0.n, 0, 0);
    make_face(cached, fb1.p, fb1.n, 0, gr_face_cacheCmap);
    if (bool(direct.face) != bool(cached.face)) { out.fail("face-accepted-with-one-cmap-path-only", 0); return; }
    if (!direct.face) return;
    out.loaded = true;
    MemFace raw(font.data(), font.size());
    size_t off, len;
    ref::Cmap rc;
    if (!raw.find(0x636D6170, off, len) || !rc.load(font.data() + off, len)) { out.fail("reference-cannot-parse-accepted-cmap", 0); return; }
    out.nseg = rc.nseg; out.nranged = rc.nranged; out.ngroups = rc.ngroups;
    ref::Pseudo rp;
    { size_t so, sl; if (raw.find(0x53696C66, so, sl)) rp.load(font.data() + so, sl); }
    out.npseudo = rp.ok ? unsigned(rp.map.size()) : 0;
    out.nontrivial = rc.nseg >= 3 && (rc.nranged || rc.f12);
    const graphite2::Cmap &dc = direct.face->cmap(), &cc = cached.face->cmap();
    auto one = [&](uint32_t usv) {
        note(usv);
        uint16_t r = rc.lookup(usv), d = dc[usv], c = cc[usv];
        ++out.evals;
        if (r) ++out.mapped;
        if (d != r) out.fail("direct-lookup-differs-from-opentype-reference", usv);
        if (c != r) out.fail("cached-lookup-differs-from-opentype-reference", usv);
        if (c != d) out.fail("cached-differs-from-direct", usv);
        int sup = gr_face_is_char_supported(direct.face, usv, 0);
        uint16_t pg = rp.lookup(usv);
        if (rp.ok && direct.face->findPseudo(usv) != pg) out.fail("pseudo-glyph-lookup-differs-from-silf-table", usv);
        int pseudo = rp.ok ? pg != 0 : direct.face->findPseudo(usv) != 0;
        if (sup != int(r != 0 || pseudo)) out.fail("is_char_supported-disagrees-with-cmap", usv);
        if (gr_face_is_char_supported(cached.face, usv, 0) != sup) out.fail("is_char_supported-differs-between-cmap-paths", usv);
    };
    if (only != 0xFFFFFFFEu) { one(only); return; }
    if (stride <= 1) { for (uint32_t usv = 0; usv <= 0x10FFFF; ++usv) one(usv); }
    else {
        for (uint32_t usv = 0; usv <= 0xFFFF; ++usv) one(usv);
        std::vector<bool> near(0x110000, false);
        for (unsigned i = 0; i < rc.ngroups; ++i) {
            const uint8_t *g = rc.f12 + 16 + 12 * i;
            for (uint32_t b : {ref::u32(g), ref::u32(g + 4)}) for (int d = -3; d <= 3; ++d) { int64_t x = int64_t(b) + d; if (x >= 0x10000 && x <= 0x10FFFF) near[size_t(x)] = true; }
        }
        for (uint32_t usv = 0x10000; usv <= 0x10FFFF; ++usv) if (near[usv] || usv % stride == 0) one(usv);
    }
    for (uint32_t usv : {0x110000u, 0x110001u, 0x1FFFFFu, 0x7FFFFFFFu, 0x80000000u, 0xFFFFFFFFu}) one(usv);
}
