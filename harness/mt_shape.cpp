// C09: concurrent shapers on one shared preloaded face and one shared unhinted font (ThreadSanitizer build).
//   mt_shape <seed> <rounds> <font> [<font> ...]
// Each round: a COLD face is made with gr_face_preloadAll from exact-size table copies (instrumented callbacks), one
// shared gr_font is made, N in 2..8 threads wait on a barrier and then each runs 5..40 jobs (make_seg with its own text /
// direction / font-or-NULL / feature values, full query + dump, destroy; feature and label queries in between) with seeded
// yield / spin perturbations.  Oracles: (1) any ThreadSanitizer report aborts the process (halt_on_error); (2) no
// get_table call after gr_make_face returned; (3) every job's dump equals the dump the same job yields single-threaded
// on a second face built from the same bytes.
#define DRV_DEFINE_HOOKS
#include "drv_common.h"
#include "shape_case.h"
#include "face_report.h"
#include <pthread.h>
#include <sched.h>
#include <atomic>

struct Rng { uint64_t s; explicit Rng(uint64_t x) : s(x * 0x9E3779B97F4A7C15ull + 0x2545F4914F6CDD1Dull) { next(); next(); }
    uint64_t next() { s ^= s << 13; s ^= s >> 7; s ^= s << 17; return s; } unsigned operator()(unsigned n) { return n ? unsigned(next() % n) : 0; } };

struct Job { ShapeParams sp; bool use_font; unsigned perturb; bool query_labels; std::string dump; std::string label; double t0 = 0, t1 = 0; };
struct Worker { std::vector<Job> jobs; const gr_face *face; const gr_font *font; pthread_barrier_t *bar; };

static double now() { timespec ts; clock_gettime(CLOCK_MONOTONIC, &ts); return ts.tv_sec + ts.tv_nsec * 1e-9; }

static std::string do_job(const gr_face *face, const gr_font *font, Job &j) {
    ShapeResult r;
    ShapeParams sp = j.sp;
    sp.want_dump = true; sp.query_all = true;
    run_shape(face, sp, r, j.use_font ? font : nullptr, true, nullptr, nullptr);
    std::string out = r.seg ? r.dump : std::string("null");
    for (auto &f : r.findings) if (!(f.label == "char-not-covered-by-any-slot" && r.late_assoc)) out += std::string("|") + f.prop + ":" + f.label;
    if (j.query_labels) {
        unsigned nf = gr_face_n_fref(face);
        for (unsigned i = 0; i < nf && i < 4; ++i) {
            const gr_feature_ref *fr = gr_face_fref(face, uint16_t(i));
            uint16_t lang = 0x0409; uint32_t len = 0;
            void *l = gr_fref_label(fr, &lang, gr_utf8, &len);
            if (l) { out += "|L" + std::to_string(len); gr_label_destroy(l); }
            gr_feature_val *fv = gr_face_featureval_for_lang(face, j.sp.use_lang ? j.sp.lang : 0);
            out += "|V" + std::to_string(gr_fref_feature_value(fr, fv));
            gr_featureval_destroy(fv);
        }
        out += "|S" + std::to_string(gr_face_is_char_supported(face, 0x1000, 0)) + std::to_string(gr_face_is_char_supported(face, 0x41, 0));
    }
    return out;
}

static void *thread_main(void *arg) {
    Worker &w = *static_cast<Worker *>(arg);
    pthread_barrier_wait(w.bar);
    for (Job &j : w.jobs) {
        for (unsigned k = 0; k < (j.perturb & 7); ++k) sched_yield();
        volatile unsigned spin = (j.perturb >> 3) & 0x3FF;
        while (spin) --spin;
        j.t0 = now();
        j.dump = do_job(w.face, w.font, j);
        j.t1 = now();
    }
    return nullptr;
}

int main(int argc, char **argv) {
    if (argc < 4) return 3;
    uint64_t seed = strtoull(argv[1], nullptr, 10);
    unsigned rounds = unsigned(atoi(argv[2]));
    unsigned long jobs_total = 0, overlapping = 0, mismatches = 0, cb_after = 0, nontrivial_rounds = 0, rounds_done = 0, fired_jobs = 0;
    std::string first_bad, sample;
    unsigned long ctor_rounds[3] = {0, 0, 0};
    for (int ai = 3; ai < argc; ++ai) {
        std::vector<uint8_t> font;
        { FILE *f = fopen(argv[ai], "rb"); if (!f) { perror(argv[ai]); return 3; } uint8_t b[65536]; size_t n; while ((n = fread(b, 1, sizeof b, f)) > 0) font.insert(font.end(), b, b + n); fclose(f); }
        Exact refbuf(font.data(), font.size());
        FaceBox ref;
        make_face(ref, refbuf.p, refbuf.n, 0, gr_face_preloadAll);
        if (!ref.face) continue;
        std::vector<uint32_t> sup;
        for (uint32_t cp = 0x20; cp < 0x3000; ++cp) if (gr_face_is_char_supported(ref.face, cp, 0)) sup.push_back(cp);
        for (uint32_t cp = 0xFB50; cp < 0xFF00; ++cp) if (gr_face_is_char_supported(ref.face, cp, 0)) sup.push_back(cp);
        {   // supplementary-plane characters (format 12 path of the cmap) where the font has them; always a few of them in the pool
            std::vector<uint32_t> astral;
            for (uint32_t cp = 0x10000; cp < 0x10100; ++cp) if (gr_face_is_char_supported(ref.face, cp, 0)) astral.push_back(cp);
            for (uint32_t cp = 0x1D400; cp < 0x1D800; ++cp) if (gr_face_is_char_supported(ref.face, cp, 0)) astral.push_back(cp);
            for (uint32_t cp = 0x1F600; cp < 0x1F650; ++cp) if (gr_face_is_char_supported(ref.face, cp, 0)) astral.push_back(cp);
            for (size_t k = 0; k < astral.size() && k < 24; ++k) sup.insert(sup.begin() + (k * 37) % (sup.size() + 1), astral[k]);
            if (!astral.empty()) for (size_t k = 0; k < sup.size(); k += 9) sup[k] = astral[k % astral.size()];
        }
        if (sup.empty()) sup.push_back(0x41);
        gr_font *reffont = gr_make_font(14.0f, ref.face);
        for (unsigned rd = 0; rd < rounds; ++rd) {
            Rng r(seed * 7919 + uint64_t(ai) * 104729 + rd);
            unsigned nthreads = 2 + r(7);
            // a small pool of texts shared between threads, so that concurrently shaped texts overlap in glyphs
            std::vector<std::vector<uint32_t>> texts;
            unsigned base = r(unsigned(sup.size()));
            for (unsigned t = 0; t < 6; ++t) { std::vector<uint32_t> tx; unsigned len = r(20); for (unsigned k = 0; k < len; ++k) tx.push_back(r(6) ? sup[(base + r(30)) % sup.size()] : (r(2) ? 0x20 : sup[r(unsigned(sup.size()))])); texts.push_back(tx); }
            std::vector<Worker> ws(nthreads);
            for (auto &w : ws) {
                unsigned nj = 5 + r(36);
                for (unsigned k = 0; k < nj; ++k) {
                    Job j;
                    const std::vector<uint32_t> &tx = texts[r(6)];
                    j.sp.enc = 4; j.sp.dir = int(r(8)); j.sp.text.assign(reinterpret_cast<const uint8_t *>(tx.data()), reinterpret_cast<const uint8_t *>(tx.data()) + tx.size() * 4);
                    j.use_font = r(2); j.perturb = r(1 << 13); j.query_labels = r(4) == 0;
                    if (r(4) == 0) { unsigned nf = gr_face_n_fref(ref.face); if (nf) { const gr_feature_ref *fr = gr_face_fref(ref.face, uint16_t(r(nf))); unsigned nv = gr_fref_n_values(fr); if (fr && nv) j.sp.feats.push_back({gr_fref_id(fr), uint16_t(gr_fref_value(fr, uint16_t(r(nv))))}); } }
                    {   // a language of the font in one job out of three: gr_face_featureval_for_lang(face, lang) reads the Sill table concurrently
                        unsigned nl = gr_face_n_languages(ref.face);
                        if (nl && r(3) == 0) { j.sp.use_lang = true; j.sp.lang = gr_face_lang_by_index(ref.face, uint16_t(r(nl))); }
                    }
                    w.jobs.push_back(j);
                }
            }
            // the shared COLD face: nothing touches it before the threads start
            Exact fbuf(font.data(), font.size());
            FaceBox shared;
            // constructor of the shared face: 0 gr_make_face_with_ops, 8 the deprecated gr_make_face_with_seg_cache_and_ops (one round in
            // four; every constructor that takes gr_face_preloadAll has to deliver a preloaded face — seed S7-C09 swapped two arguments of this one),
            // 1 / 9 the file-face constructors (one round in eight: no callback ledger there, the race and equality clauses only)
            const unsigned ck = r(8);
            const int ctor = ck < 2 ? 8 : ck == 2 ? (r(2) ? 1 : 9) : 0;
            make_face(shared, fbuf.p, fbuf.n, ctor, gr_face_preloadAll);
            if (!shared.face) break;
            ++ctor_rounds[ctor == 0 ? 0 : ctor == 8 ? 1 : 2];
            if (shared.mf) shared.mf->frozen = true;
            gr_font *sfont = gr_make_font(14.0f, shared.face);
            pthread_barrier_t bar;
            pthread_barrier_init(&bar, nullptr, nthreads);
            std::vector<pthread_t> th(nthreads);
            for (unsigned t = 0; t < nthreads; ++t) { ws[t].face = shared.face; ws[t].font = sfont; ws[t].bar = &bar; pthread_create(&th[t], nullptr, thread_main, &ws[t]); }
            for (unsigned t = 0; t < nthreads; ++t) pthread_join(th[t], nullptr);
            pthread_barrier_destroy(&bar);
            if (shared.mf) cb_after += shared.mf->gets_after_freeze;
            // sequential reference on the other face
            bool round_overlap = false, round_fired = false;
            for (unsigned t = 0; t < nthreads; ++t) for (Job &j : ws[t].jobs) {
                ++jobs_total;
                Job copy = j;
                std::string want = do_job(ref.face, reffont, copy);
                if (want != j.dump) { ++mismatches; if (first_bad.empty()) first_bad = "{\"font\":" + jstr(argv[ai]) + ",\"round\":" + std::to_string(rd) + ",\"thread\":" + std::to_string(t) + ",\"dir\":" + std::to_string(j.sp.dir) + "}"; }
                if (hooks().fired) { ++fired_jobs; round_fired = true; }
                for (unsigned u = 0; u < nthreads && !round_overlap; ++u) if (u != t) for (Job &o : ws[u].jobs) if (o.t0 < j.t1 && j.t0 < o.t1) { round_overlap = true; break; }
                if (round_overlap) ++overlapping;
            }
            if (round_overlap && round_fired) ++nontrivial_rounds;
            ++rounds_done;
            if (sample.empty() && round_overlap) sample = "{\"font\":" + jstr(argv[ai]) + ",\"threads\":" + std::to_string(nthreads) + ",\"jobs_first_thread\":" + std::to_string(ws[0].jobs.size()) + ",\"round\":" + std::to_string(rd) + "}";
            gr_font_destroy(sfont);
        }
        gr_font_destroy(reffont);
    }
    printf("{\"evaluations\":%lu,\"rounds\":%lu,\"nontrivial\":%lu,\"jobs_overlapping_in_time\":%lu,\"jobs_with_rules_fired\":%lu,\"dump_mismatches\":%lu,\"callbacks_after_construction\":%lu,\"rounds_by_constructor\":{\"with_ops\":%lu,\"with_seg_cache_and_ops\":%lu,\"file\":%lu},\"first_mismatch\":%s,\"sample\":%s}\n",
           jobs_total, rounds_done, nontrivial_rounds, overlapping, fired_jobs, mismatches, cb_after, ctor_rounds[0], ctor_rounds[1], ctor_rounds[2], first_bad.empty() ? "null" : first_bad.c_str(), sample.empty() ? "null" : sample.c_str());
    return 0;
}
