// C20 enumerator: gr_str_to_tag / gr_tag_to_str against a byte-exact reference, every argument in an
// exact-size heap buffer so that a one-byte over-read or over-write is an ASan report.
//   usage: enum_tag <seed> <n_random>
#include <graphite2/Font.h>
#include "enum_common.h"

static uint32_t ref_tag(const uint8_t *s, size_t len) {
    uint32_t t = 0;
    for (size_t i = 0; i < 4; ++i) t = (t << 8) | (i < len ? s[i] : 0);
    return t;
}

static unsigned long g_evals = 0, g_nontrivial = 0;
static en::Fails fails;

static void try_str(const uint8_t *s, size_t len) {
    en::current("str_to_tag", s, len);
    char *b = static_cast<char *>(malloc(len + 1));      // ends exactly at the NUL
    memcpy(b, s, len); b[len] = 0;
    uint32_t got = gr_str_to_tag(b);
    free(b);
    ++g_evals;
    if (len != 4) ++g_nontrivial;                        // shorter (padding) or longer (truncation) than a full tag
    if (got != ref_tag(s, len)) fails.add("str_to_tag-wrong-value");
    if (len == 4) {                                      // inverse on four-character tags
        char *o = static_cast<char *>(malloc(4));
        gr_tag_to_str(got, o);
        if (memcmp(o, s, 4) != 0) fails.add("roundtrip-str-tag-str");
        free(o);
    }
}

static void try_tag(uint32_t tag) {
    uint8_t tb[4] = {uint8_t(tag >> 24), uint8_t(tag >> 16), uint8_t(tag >> 8), uint8_t(tag)};
    en::current("tag_to_str", tb, 4);
    ++g_evals; ++g_nontrivial;
    for (int fill = 0; fill < 2; ++fill) {
        uint8_t *o = static_cast<uint8_t *>(malloc(4));  // exactly the documented 4 bytes
        memset(o, fill ? 0xAA : 0x55, 4);
        gr_tag_to_str(tag, reinterpret_cast<char *>(o));
        if (memcmp(o, tb, 4) != 0) fails.add("tag_to_str-wrong-bytes");
        free(o);
        uint8_t w[12]; memset(w, fill ? 0xAA : 0x55, sizeof w);
        gr_tag_to_str(tag, reinterpret_cast<char *>(w + 4));
        for (int i = 0; i < 12; ++i) if ((i < 4 || i >= 8) && w[i] != (fill ? 0xAA : 0x55)) { fails.add("tag_to_str-writes-outside-4-bytes"); break; }
    }
    bool nonul = tb[0] && tb[1] && tb[2] && tb[3];
    if (nonul) {                                         // tag -> str -> tag
        char *o = static_cast<char *>(malloc(5));
        gr_tag_to_str(tag, o); o[4] = 0;
        if (gr_str_to_tag(o) != tag) fails.add("roundtrip-tag-str-tag");
        free(o);
    }
}

int main(int argc, char **argv) {
    en::init();
    unsigned long long seed = argc > 1 ? strtoull(argv[1], nullptr, 10) : 0;
    unsigned long nrand = argc > 2 ? strtoul(argv[2], nullptr, 10) : 100000;
    uint8_t s[8];
    // exhaustive: all C strings of length 0..2 over all 255 non-NUL byte values
    try_str(s, 0);
    for (int a = 1; a < 256; ++a) { s[0] = uint8_t(a); try_str(s, 1); }
    for (int a = 1; a < 256; ++a) for (int b = 1; b < 256; ++b) { s[0] = uint8_t(a); s[1] = uint8_t(b); try_str(s, 2); }
    unsigned long exhaustive_cases = g_evals;
    // structured: lengths 3..8 over boundary byte values
    static const uint8_t B7[] = {0x01, 0x20, 0x41, 0x61, 0x7F, 0x80, 0xFF};
    static const uint8_t B4[] = {0x20, 0x41, 0x80, 0xFF};
    for (int len = 3; len <= 4; ++len) {
        unsigned long total = 1; for (int i = 0; i < len; ++i) total *= 7;
        for (unsigned long k = 0; k < total; ++k) { unsigned long x = k; for (int i = 0; i < len; ++i) { s[i] = B7[x % 7]; x /= 7; } try_str(s, size_t(len)); }
    }
    for (int len = 5; len <= 8; ++len) {
        unsigned long total = 1ul << (2 * len);
        for (unsigned long k = 0; k < total; ++k) { unsigned long x = k; for (int i = 0; i < len; ++i) { s[i] = B4[x & 3]; x >>= 2; } try_str(s, size_t(len)); }
    }
    // tags: every byte from a 16-value boundary set (65536 tags) ...
    static const uint8_t T16[] = {0x00, 0x01, 0x1F, 0x20, 0x21, 0x30, 0x41, 0x5A, 0x61, 0x7A, 0x7F, 0x80, 0x81, 0xC3, 0xFE, 0xFF};
    for (int a = 0; a < 16; ++a) for (int b = 0; b < 16; ++b) for (int c = 0; c < 16; ++c) for (int d = 0; d < 16; ++d)
        try_tag((uint32_t(T16[a]) << 24) | (T16[b] << 16) | (T16[c] << 8) | T16[d]);
    const unsigned long enum_nontrivial = g_nontrivial;      // everything up to here is enumerated once: distinct by construction
    // ... plus seeded pseudo-random tags and strings of length 3..8 over all byte values
    unsigned long long x = seed * 0x9E3779B97F4A7C15ull + 0x1234567ull;
    auto rnd = [&]() { x ^= x << 13; x ^= x >> 7; x ^= x << 17; return x; };
    for (unsigned long i = 0; i < nrand; ++i) {
        try_tag(uint32_t(rnd() >> 16));
        size_t len = 3 + size_t(rnd() % 6);
        for (size_t k = 0; k < len; ++k) { uint8_t v = uint8_t(rnd() >> 24); s[k] = v ? v : 0x80; }
        try_str(s, len);
    }
    printf("{\"evaluations\":%lu,\"nontrivial\":%lu,\"enum_nontrivial\":%lu,\"exhaustive_cases\":%lu,\"fails\":%s}\n", g_evals, g_nontrivial, enum_nontrivial, exhaustive_cases, fails.json().c_str());
    return 0;
}
