// Shared plumbing for grdrv: request reader, JSON string helpers, hook sinks, face factory.
#pragma once
#include <graphite2/Font.h>
#include <graphite2/Segment.h>
#include <cstdint>
#include <cstdio>
#include <cstdlib>
#include <cstring>
#include <string>
#include <vector>
#include <map>
#include <memory>
#include <unistd.h>
#include <sys/mman.h>
#include "memface.h"

struct Reader {
    const uint8_t *p, *e;
    bool bad = false;
    Reader(const uint8_t *b, size_t n) : p(b), e(b + n) {}
    bool need(size_t n) { if (size_t(e - p) < n) { bad = true; return false; } return true; }
    uint8_t u8() { if (!need(1)) return 0; return *p++; }
    uint16_t u16() { if (!need(2)) return 0; uint16_t v; memcpy(&v, p, 2); p += 2; return v; }
    uint32_t u32() { if (!need(4)) return 0; uint32_t v; memcpy(&v, p, 4); p += 4; return v; }
    int32_t i32() { return int32_t(u32()); }
    float f32() { if (!need(4)) return 0; float v; memcpy(&v, p, 4); p += 4; return v; }
    double f64() { if (!need(8)) return 0; double v; memcpy(&v, p, 8); p += 8; return v; }
    std::vector<uint8_t> bytes() { uint32_t n = u32(); if (!need(n)) return {}; std::vector<uint8_t> v(p, p + n); p += n; return v; }
    size_t left() const { return size_t(e - p); }
};

// exact-size heap buffer (ASan red zones right at both ends); never a std::vector whose capacity may exceed its size
struct Exact {
    uint8_t *p; size_t n;
    explicit Exact(const std::vector<uint8_t> &v) : n(v.size()) { p = static_cast<uint8_t *>(malloc(n ? n : 1)); if (n) memcpy(p, v.data(), n); }
    Exact(const void *d, size_t len) : n(len) { p = static_cast<uint8_t *>(malloc(n ? n : 1)); if (n) memcpy(p, d, n); }
    ~Exact() { free(p); }
    Exact(const Exact &) = delete;
};

inline std::string jstr(const std::string &s) {
    std::string o = "\"";
    for (unsigned char c : s) {
        if (c == '"' || c == '\\') { o += '\\'; o += char(c); }
        else if (c < 0x20 || c >= 0x7f) { char b[8]; snprintf(b, sizeof b, "\\u%04x", c); o += b; }
        else o += char(c);
    }
    return o + "\"";
}
inline std::string jhex(const void *d, size_t n) {
    static const char *hx = "0123456789abcdef";
    std::string o = "\"";
    const uint8_t *p = static_cast<const uint8_t *>(d);
    for (size_t i = 0; i < n; ++i) { o += hx[p[i] >> 4]; o += hx[p[i] & 15]; }
    return o + "\"";
}
inline std::string jflt(double v) { char b[48]; snprintf(b, sizeof b, "\"%a\"", v); return b; }
inline std::string jnum(double v) { char b[48]; if (v != v || v - v != 0) snprintf(b, sizeof b, "\"%g\"", v); else snprintf(b, sizeof b, "%.9g", v); return b; }

// ---------------------------------------------------------------------------------------------
// Hook sinks (H1/H2).  thread_local so the multi-thread harness can use them too.
struct PassRec { unsigned long iters; unsigned maxloop; unsigned long slots; long budget; };
struct HookState {
    std::vector<PassRec> passes;
    unsigned long fired = 0, late_assoc = 0;
    unsigned load_err = 0, load_ctx = 0; bool load_failed = false;
    void reset() { passes.clear(); fired = 0; late_assoc = 0; load_err = load_ctx = 0; load_failed = false; }
};
inline HookState &hooks() { static thread_local HookState h; return h; }
#ifdef DRV_DEFINE_HOOKS
extern "C" void graphite2_verif_pass(unsigned long iterations, unsigned int max_rule_loop, unsigned long slots_at_start, long insert_budget) {
    HookState &h = hooks();
    if (h.passes.size() < 4096) h.passes.push_back({iterations, max_rule_loop, slots_at_start, insert_budget});
}
extern "C" void graphite2_verif_rule_fired() { ++hooks().fired; }
extern "C" void graphite2_verif_late_assoc() { ++hooks().late_assoc; }
extern "C" void graphite2_verif_load_failed(unsigned int error, unsigned int context) { HookState &h = hooks(); h.load_failed = true; h.load_err = error; h.load_ctx = context; }
#endif
inline unsigned long pass_bound(const PassRec &r) {
    long b = r.budget > 0 ? r.budget : 0;
    return (unsigned long)r.maxloop * (r.slots + (unsigned long)b + 2);
}

// ---------------------------------------------------------------------------------------------
// Face factory: the three table sources of the API.
struct FaceBox {
    gr_face *face = nullptr;
    std::unique_ptr<MemFace> mf;      // callbacks (src 0: exact copies + ledger, src 2: deprecated, no release fn)
    int fd = -1;                      // file face (src 1)
    int src = 0;
    ~FaceBox() { destroy(); if (fd >= 0) close(fd); }
    void destroy() { if (face) { gr_face_destroy(face); face = nullptr; } }
};

// src: 0 callbacks with release (borrow ledger), 1 file face, 2 deprecated gr_make_face (no release);
//      +8: the deprecated *_with_seg_cache variant of the same constructor (cache size argument is ignored by the library)
inline void make_face(FaceBox &fb, const uint8_t *font, size_t n, int src, unsigned opts) {
    const bool segc = (src & 8) != 0;
    src &= 7;
    fb.src = src;
    if (src == 1) {
        fb.fd = memfd_create("grfont", 0);
        if (fb.fd < 0) { perror("memfd_create"); exit(3); }
        size_t off = 0;
        while (off < n) { ssize_t w = write(fb.fd, font + off, n - off); if (w <= 0) { perror("write"); exit(3); } off += size_t(w); }
        char path[64]; snprintf(path, sizeof path, "/proc/self/fd/%d", fb.fd);
        fb.face = segc ? gr_make_file_face_with_seg_cache(path, 100, opts) : gr_make_file_face(path, opts);
        return;
    }
    fb.mf.reset(new MemFace(font, n));
    if (src == 2) {
        fb.mf->own_copy = false;     // no release function: hand out pointers into the (exact-size) font buffer
        fb.face = segc ? gr_make_face_with_seg_cache(fb.mf.get(), MemFace::get_table, 100, opts) : gr_make_face(fb.mf.get(), MemFace::get_table, opts);
        return;
    }
    gr_face_ops ops = fb.mf->ops();
    fb.face = segc ? gr_make_face_with_seg_cache_and_ops(fb.mf.get(), &ops, 100, opts) : gr_make_face_with_ops(fb.mf.get(), &ops, opts);
}
