// C01/C16 deterministic sweeps: single-site corruptions of a seed font, each loaded through the
// instrumented table callbacks (exact-size copies, borrow ledger) with every face query exercised.
//   enum_face sweep <font> <part> <nparts> [shape]     boundary sweep over every byte/word of the tables the engine reads
//   enum_face fuzzfile <font> <file.fuzz> <part> <nparts> [limit]   the repository's historical "offset,value" crashers
//   enum_face one <font> <offset> <value> <width> <opts> <src>     replay of one case
#define DRV_DEFINE_HOOKS
#include "drv_common.h"
#include "face_report.h"
#include "shape_case.h"
#include "enum_common.h"
#include <signal.h>

static en::Fails fails;
static unsigned long g_evals = 0, g_loaded = 0, g_deep = 0, g_shaped = 0, g_fired = 0;
static unsigned long g_salt = 0;      // derived from the case alone (offset, value, width): what is shaped how must replay identically in `one` mode
static std::map<std::string, unsigned long> g_rejects;
static bool g_shape = false;
static std::vector<std::vector<uint32_t>> g_texts;      // shape=<hex,hex,...;hex,...>: probe texts (UTF-32); default: one fixed text
static void parse_shape_arg(const char *a) {
    g_shape = true;
    const char *p = strchr(a, '=');
    if (!p) return;
    std::vector<uint32_t> cur;
    for (++p; ; ) {
        char *e; unsigned long v = strtoul(p, &e, 16);
        if (e != p) cur.push_back(uint32_t(v));
        if (*e == ';' || *e == 0) { if (!cur.empty()) g_texts.push_back(cur); cur.clear(); }
        if (*e == 0) break;
        p = e + 1;
    }
}

static void on_alarm(int) {
    fprintf(stderr, "\nHANG (no return within 30 s)\nCURRENT-CASE %s\n", en::render());
    _exit(9);
}

static std::vector<uint8_t> read_file(const char *p) {
    std::vector<uint8_t> v;
    FILE *f = fopen(p, "rb");
    if (!f) { perror(p); exit(3); }
    uint8_t buf[65536]; size_t n;
    while ((n = fread(buf, 1, sizeof buf, f)) > 0) v.insert(v.end(), buf, buf + n);
    fclose(f);
    return v;
}

static void run_one(const std::vector<uint8_t> &font, unsigned opts, int src) {
    ++g_evals;
    alarm(30);
    Exact fbuf(font.data(), font.size());
    FaceBox fb;
    hooks().reset();
    make_face(fb, fbuf.p, fbuf.n, src, opts);
    if (!fb.face) {
        char k[64]; snprintf(k, sizeof k, "err%u_ctx%u", hooks().load_err, hooks().load_ctx & 0xFF);
        g_rejects[hooks().load_failed ? k : "before_load"]++;
        if (hooks().load_failed && hooks().load_err) ++g_deep;
        if (fb.mf && src == 0) {
            if (fb.mf->outstanding()) fails.add("C16:tables-outstanding-after-failed-make_face");
            if (!fb.mf->errors.empty()) fails.add("C16:release-discipline");
        }
        alarm(0);
        return;
    }
    ++g_loaded;
    if (fb.mf && (opts & gr_face_preloadAll) == gr_face_preloadAll) fb.mf->frozen = true;
    ReportOpts ro;
    ro.label_langs = {0x0409, 0x0C09};
    ro.extra_langs = {0x656E0000u, 0x20202020u};
    ro.chars = {0x20, 0x41, 0x61, 0x1000, 0xFFFF, 0x10000, 0x10FFFF, 0x110000};
    std::string rep = face_report(fb.face, ro);
    if (rep.find("CLONE_DIFFERS") != std::string::npos) fails.add("C18:clone-differs-from-source");
    if (g_shape) {
        static const uint32_t txt[] = {0x61, 0x62, 0x63, 0x20, 0x1000, 0x1031, 0x61, 0x62};
        if (g_texts.empty()) g_texts.push_back(std::vector<uint32_t>(txt, txt + 8));
        bool any_font = false;
        for (size_t ti = 0; ti < g_texts.size(); ++ti) {
            ShapeParams sp; sp.enc = 4; sp.dir = int((g_salt + ti) & 1); sp.want_dump = false; sp.query_all = true;
            // a gr_font (scaled, or hinted = advance callbacks) for one text in three, and for at least one text of every corrupted font:
            // some fields only matter once a font scales by them (seed S7-C03: head.unitsPerEm == 0 accepted => infinite scale)
            if (((g_salt >> 1) + ti) % 3 == 0 || (ti + 1 == g_texts.size() && !any_font)) { sp.ppm = ((g_salt >> 5) & 1) ? -13.f : 14.f; any_font = true; }
            sp.text.assign(reinterpret_cast<const uint8_t *>(g_texts[ti].data()), reinterpret_cast<const uint8_t *>(g_texts[ti].data()) + g_texts[ti].size() * 4);
            ShapeResult r;
            alarm(30);
            run_shape(fb.face, sp, r);
            ++g_shaped;
            if (r.fired) ++g_fired;
            for (auto &f : r.findings) {
                if (f.label == "char-not-covered-by-any-slot" && r.late_assoc) continue;
                fails.add((std::string(f.prop) + ":" + f.label).c_str());
            }
        }
    }
    fb.destroy();
    if (fb.mf && src == 0) {
        if (fb.mf->outstanding()) fails.add("C16:tables-outstanding-after-face_destroy");
        if (!fb.mf->errors.empty()) fails.add("C16:release-discipline");
        if (fb.mf->gets_after_freeze) fails.add("C16:get_table-after-preloadAll-construction");
    }
    alarm(0);
}

static bool interesting(uint32_t tag) {
    switch (tag) {
        case 0x53696C66: case 0x476C6174: case 0x476C6F63: case 0x46656174: case 0x53696C6C: case 0x636D6170: case 0x6E616D65:
        case 0x68686561: case 0x6D617870: case 0x68656164: case 0x6C6F6361: case 0x686D7478: return true;
        default: return false;
    }
}

static void note(const char *kind, size_t off, unsigned val, unsigned width, unsigned opts, int src) {
    g_salt = (unsigned long)(off) * 2654435761ul + val * 40503ul + width * 7ul;
    g_salt ^= g_salt >> 13;
    uint8_t b[16];
    uint32_t o = uint32_t(off);
    memcpy(b, &o, 4); memcpy(b + 4, &val, 4); b[8] = uint8_t(width); b[9] = uint8_t(opts); b[10] = uint8_t(src);
    en::current(kind, b, 11, long(off));
}

int main(int argc, char **argv) {
    en::init();
    signal(SIGALRM, on_alarm);
    if (argc < 3) return 3;
    std::string mode = argv[1];
    std::vector<uint8_t> font = read_file(argv[2]);
    if (mode == "one") {
        size_t off = strtoul(argv[3], nullptr, 0); unsigned val = unsigned(strtoul(argv[4], nullptr, 0)), width = unsigned(atoi(argv[5]));
        unsigned opts = unsigned(atoi(argv[6])); int src = atoi(argv[7]);
        if (argc > 8) parse_shape_arg(argv[8]);
        if (width == 1 && off < font.size()) font[off] = uint8_t(val);
        else if (width == 2 && off + 1 < font.size()) { font[off] = uint8_t(val >> 8); font[off + 1] = uint8_t(val); }
        else if (width == 3 && off + 1 < font.size()) {
            size_t o2 = off + 2 * (val >> 4); unsigned v = val & 15;
            static const int DA[] = {1, 1, -1}, DB[] = {1, -1, 1};
            if (o2 + 1 < font.size() && v < 3) {
                unsigned a = (font[off] << 8) | font[off + 1], b = (font[o2] << 8) | font[o2 + 1];
                unsigned na = (a + DA[v]) & 0xFFFF, nb = (b + DB[v]) & 0xFFFF;
                font[off] = uint8_t(na >> 8); font[off + 1] = uint8_t(na); font[o2] = uint8_t(nb >> 8); font[o2 + 1] = uint8_t(nb);
            }
        }
        else if (width == 0 && off + 16 <= font.size()) { font[off + 12] = uint8_t(val >> 24); font[off + 13] = uint8_t(val >> 16); font[off + 14] = uint8_t(val >> 8); font[off + 15] = uint8_t(val); }
        note("one", off, val, width, opts, src);
        run_one(font, opts, src);
    } else if (mode == "sweep") {
        unsigned long part = strtoul(argv[3], nullptr, 10), nparts = strtoul(argv[4], nullptr, 10);
        if (argc > 5) parse_shape_arg(argv[5]);
        // directory entries (lengths and offsets) + every byte of the interesting tables
        std::vector<size_t> offs;
        std::vector<std::pair<size_t, size_t>> small;
        unsigned nt = font.size() >= 12 ? (font[4] << 8 | font[5]) : 0;
        for (unsigned i = 0; i < nt && 12 + 16 * (i + 1) <= font.size(); ++i) {
            const uint8_t *e = font.data() + 12 + 16 * i;
            uint32_t tag = MemFace::be32(e); size_t off = MemFace::be32(e + 8), len = MemFace::be32(e + 12);
            for (size_t k = 8; k < 16; ++k) offs.push_back(12 + 16 * i + k);
            if (interesting(tag) && off <= font.size() && len <= font.size() - off) {
                for (size_t k = 0; k < len; ++k) offs.push_back(off + k);
                if (len <= 64) small.push_back(std::make_pair(off, off + len));     // head, hhea, maxp: swept by every part
            }
        }
        static const uint8_t BV[] = {0x00, 0x01, 0x7F, 0x80, 0xFF, 0x03, 0x40};
        static const uint16_t WV[] = {0x0000, 0x0001, 0x7FFF, 0x8000, 0xFFFF, 0x00FF, 0x0100, 0xFFFE, 0x0004, 0x0007, 0x0008, 0x0013, 0x0014};     // incl. small lengths around header sizes
        unsigned long idx = 0;
        for (size_t oi = 0; oi < offs.size(); ++oi) {
            size_t o = offs[oi];
            // parts take PAIRS of consecutive offsets (a part made of every other byte would hold only odd offsets wherever an odd-length
            // table shifts the parity, and never try a 16-bit value there); the small fixed-layout tables are swept by every part
            bool always = false;
            for (auto &sm : small) if (o >= sm.first && o < sm.second) always = true;
            if (((idx++ >> 1) % nparts) != part && !always) continue;
            uint8_t save0 = font[o], save1 = o + 1 < font.size() ? font[o + 1] : 0;
            unsigned opts = unsigned(oi % 8); int src = (oi % 11 == 0) ? 1 : (oi % 13 == 0) ? 2 : 0;
            for (uint8_t v : BV) {
                if (v == save0) continue;
                font[o] = v; note("sweep", o, v, 1, opts, src); run_one(font, opts, src);
            }
            {   // +-1
                font[o] = uint8_t(save0 + 1); note("sweep", o, font[o], 1, opts, src); run_one(font, opts, src);
                font[o] = uint8_t(save0 - 1); note("sweep", o, font[o], 1, opts, src); run_one(font, opts, src);
            }
            font[o] = save0;
            if ((o & 1) == 0 && o + 1 < font.size()) {
                for (uint16_t w : WV) { font[o] = uint8_t(w >> 8); font[o + 1] = uint8_t(w); note("sweep", o, w, 2, opts, src); run_one(font, opts, src); }
                font[o] = save0; font[o + 1] = save1;
            }
            if (g_shape && (o & 1) == 0) {
                // coordinated pairs (width 3 = pair): two nearby 16-bit fields moved together by +-1, so that redundant header
                // fields (numIDs / rangeShift of a lookup class, search headers) stay mutually consistent; val = (k << 4) | variant
                for (unsigned k = 1; k <= 3; ++k) {
                    size_t o2 = o + 2 * k;
                    if (o2 + 1 >= font.size()) break;
                    uint8_t s2 = font[o2], s3 = font[o2 + 1];
                    unsigned a = (save0 << 8) | save1, b = (s2 << 8) | s3;
                    static const int DA[] = {1, 1, -1}, DB[] = {1, -1, 1};
                    for (unsigned v = 0; v < 3; ++v) {
                        unsigned na = (a + DA[v]) & 0xFFFF, nb = (b + DB[v]) & 0xFFFF;
                        font[o] = uint8_t(na >> 8); font[o + 1] = uint8_t(na); font[o2] = uint8_t(nb >> 8); font[o2 + 1] = uint8_t(nb);
                        note("sweep", o, (k << 4) | v, 3, opts, src); run_one(font, opts, src);
                    }
                    font[o] = save0; font[o + 1] = save1; font[o2] = s2; font[o2 + 1] = s3;
                }
            }
        }
    } else if (mode == "fuzzfile") {
        unsigned long part = strtoul(argv[4], nullptr, 10), nparts = strtoul(argv[5], nullptr, 10);
        unsigned long limit = argc > 6 ? strtoul(argv[6], nullptr, 10) : ~0ul;
        FILE *f = fopen(argv[3], "r");
        if (!f) { perror(argv[3]); return 3; }
        char line[512]; unsigned long idx = 0, done = 0;
        while (fgets(line, sizeof line, f) && done < limit) {
            char *c1 = strchr(line, ','); if (!c1) continue;
            char *c2 = strchr(c1 + 1, ','); if (!c2) continue;
            size_t off = strtoul(c1 + 1, nullptr, 0); unsigned val = unsigned(strtoul(c2 + 1, nullptr, 0));
            if (off >= font.size()) continue;
            if ((idx++ % nparts) != part) continue;
            ++done;
            uint8_t save = font[off];
            font[off] = uint8_t(val);
            unsigned opts = unsigned(idx % 8);
            note("fuzzfile", off, val, 1, opts, 0);
            run_one(font, opts, 0);
            font[off] = save;
        }
        fclose(f);
    }
    std::string rj = "{";
    bool first = true;
    for (auto &kv : g_rejects) { if (!first) rj += ","; first = false; rj += "\"" + kv.first + "\":" + std::to_string(kv.second); }
    rj += "}";
    printf("{\"evaluations\":%lu,\"loaded\":%lu,\"deep_rejects\":%lu,\"shaped\":%lu,\"shaped_fired\":%lu,\"rejects\":%s,\"fails\":%s}\n", g_evals, g_loaded, g_deep, g_shaped, g_fired, rj.c_str(), fails.json().c_str());
    return 0;
}
