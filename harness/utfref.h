// Reference UTF-8/16/32 classifier and decoder, written from the Unicode Standard (Table 3-7,
// D91/D92) and sharing no code with /repo/src/inc/UtfCodec.h.
#pragma once
#include <cstdint>
#include <cstddef>
#include <vector>

namespace utfref {

struct Seq {
    uint32_t cp;      // scalar value, or 0xFFFD when !ok
    size_t off;       // code-unit offset of the first unit
    int len;          // code units consumed (greedy policy for ill-formed, see below)
    bool ok;          // well-formed per Unicode
    bool surrogate;   // ill-formed only because it encodes U+D800..DFFF (UTF-8 3-byte form, UTF-32 unit)
};

// Well-formed UTF-8 sequence at p (n units available)? returns length 1..4 and scalar, or 0.
inline int wf8(const uint8_t *p, size_t n, uint32_t &cp) {
    if (n == 0) return 0;
    uint8_t b0 = p[0];
    if (b0 < 0x80) { cp = b0; return 1; }
    if (b0 >= 0xC2 && b0 <= 0xDF) {
        if (n < 2 || p[1] < 0x80 || p[1] > 0xBF) return 0;
        cp = ((b0 & 0x1Fu) << 6) | (p[1] & 0x3Fu); return 2;
    }
    if (b0 >= 0xE0 && b0 <= 0xEF) {
        if (n < 3) return 0;
        uint8_t lo = 0x80, hi = 0xBF;
        if (b0 == 0xE0) lo = 0xA0;
        if (b0 == 0xED) hi = 0x9F;
        if (p[1] < lo || p[1] > hi) return 0;
        if (p[2] < 0x80 || p[2] > 0xBF) return 0;
        cp = ((b0 & 0x0Fu) << 12) | ((p[1] & 0x3Fu) << 6) | (p[2] & 0x3Fu); return 3;
    }
    if (b0 >= 0xF0 && b0 <= 0xF4) {
        if (n < 4) return 0;
        uint8_t lo = 0x80, hi = 0xBF;
        if (b0 == 0xF0) lo = 0x90;
        if (b0 == 0xF4) hi = 0x8F;
        if (p[1] < lo || p[1] > hi) return 0;
        if (p[2] < 0x80 || p[2] > 0xBF) return 0;
        if (p[3] < 0x80 || p[3] > 0xBF) return 0;
        cp = ((b0 & 0x07u) << 18) | ((p[1] & 0x3Fu) << 12) | ((p[2] & 0x3Fu) << 6) | (p[3] & 0x3Fu); return 4;
    }
    return 0;
}

// 3-byte UTF-8 form of a surrogate code point (ED A0..BF 80..BF)?
inline bool surrogate8(const uint8_t *p, size_t n) {
    return n >= 3 && p[0] == 0xED && p[1] >= 0xA0 && p[1] <= 0xBF && p[2] >= 0x80 && p[2] <= 0xBF;
}

inline int declared_len8(uint8_t b0) {
    if (b0 < 0x80) return 1;
    if (b0 < 0xC0) return 1;          // stray continuation byte
    if (b0 < 0xE0) return 2;
    if (b0 < 0xF0) return 3;
    return 4;                          // F0..FF (F5..FF are never valid; greedy: like a 4-byte lead)
}

// Greedy decode: an ill-formed sequence consumes its first unit plus every following continuation
// unit up to the length its lead declares.  This is the *largest* consumption that cannot swallow the
// start of a later well-formed character, hence yields the smallest character count of any
// non-derailing policy -- the count a careful caller can safely pass as nChars.
inline std::vector<Seq> decode8(const uint8_t *p, size_t n) {
    std::vector<Seq> out;
    size_t i = 0;
    while (i < n) {
        uint32_t cp; int l = wf8(p + i, n - i, cp);
        if (l) { out.push_back({cp, i, l, true, false}); i += l; continue; }
        bool sur = surrogate8(p + i, n - i);
        int want = declared_len8(p[i]);
        int k = 1;
        while (k < want && i + k < n && p[i + k] >= 0x80 && p[i + k] <= 0xBF) ++k;
        out.push_back({0xFFFD, i, k, false, sur});
        i += k;
    }
    return out;
}

inline int wf16(const uint16_t *p, size_t n, uint32_t &cp) {
    if (n == 0) return 0;
    uint16_t u = p[0];
    if (u < 0xD800 || u > 0xDFFF) { cp = u; return 1; }
    if (u >= 0xDC00) return 0;
    if (n < 2 || p[1] < 0xDC00 || p[1] > 0xDFFF) return 0;
    cp = 0x10000u + ((uint32_t(u) - 0xD800u) << 10) + (uint32_t(p[1]) - 0xDC00u); return 2;
}
inline std::vector<Seq> decode16(const uint16_t *p, size_t n) {
    std::vector<Seq> out;
    size_t i = 0;
    while (i < n) {
        uint32_t cp; int l = wf16(p + i, n - i, cp);
        if (l) { out.push_back({cp, i, l, true, false}); i += l; }
        else { out.push_back({0xFFFD, i, 1, false, false}); i += 1; }
    }
    return out;
}
inline std::vector<Seq> decode32(const uint32_t *p, size_t n) {
    std::vector<Seq> out;
    for (size_t i = 0; i < n; ++i) {
        uint32_t u = p[i];
        if (u >= 0xD800 && u <= 0xDFFF) out.push_back({0xFFFD, i, 1, false, true});
        else if (u > 0x10FFFF) out.push_back({0xFFFD, i, 1, false, false});
        else out.push_back({u, i, 1, true, false});
    }
    return out;
}

// enc = 1 (utf8), 2 (utf16), 4 (utf32); bytes is the raw buffer, nbytes a multiple of enc
inline std::vector<Seq> decode(int enc, const void *bytes, size_t nbytes) {
    if (enc == 1) return decode8(static_cast<const uint8_t *>(bytes), nbytes);
    if (enc == 2) return decode16(static_cast<const uint16_t *>(bytes), nbytes / 2);
    return decode32(static_cast<const uint32_t *>(bytes), nbytes / 4);
}

// Policy-independent check of what the library reported for one char-info against the raw text.
//   base      : reported code-unit offset; next: offset of the following char-info (or units if last
//               and the whole buffer was consumed, or SIZE_MAX when unknown)
// Returns NULL when acceptable, else a label.
inline const char *judge_char(int enc, const void *bytes, size_t units, size_t base, size_t next, uint32_t got) {
    if (base >= units) return "cinfo-base-outside-text";
    uint32_t cp = 0; int l = 0; bool sur = false;
    if (enc == 1) { const uint8_t *p = static_cast<const uint8_t *>(bytes); l = wf8(p + base, units - base, cp); sur = !l && surrogate8(p + base, units - base); }
    else if (enc == 2) { l = wf16(static_cast<const uint16_t *>(bytes) + base, units - base, cp); }
    else { uint32_t u = static_cast<const uint32_t *>(bytes)[base]; if (u >= 0xD800 && u <= 0xDFFF) { sur = true; cp = u; } else if (u <= 0x10FFFF) { cp = u; l = 1; } }
    if (l) {
        if (got != cp) return "cinfo-char-wrong";
        if (next != SIZE_MAX && next != base + l) return "cinfo-base-step-wrong";
        return nullptr;
    }
    if (sur) {   // unspecified: either U+FFFD or the surrogate value itself is tolerated (DESIGN N1)
        if (got == 0xFFFD) { if (next != SIZE_MAX && next <= base) return "cinfo-base-not-increasing"; return nullptr; }
        uint32_t sv = cp;
        if (enc == 1) { const uint8_t *p = static_cast<const uint8_t *>(bytes) + base; sv = ((p[0] & 0x0Fu) << 12) | ((p[1] & 0x3Fu) << 6) | (p[2] & 0x3Fu); }
        if (got != sv) return "cinfo-char-wrong";
        return nullptr;
    }
    if (got != 0xFFFD) return "illformed-not-FFFD";
    if (next != SIZE_MAX) {
        if (next <= base) return "cinfo-base-not-increasing";
        size_t used = next - base;
        if (enc != 1) { if (used != 1) return "illformed-swallowed-units"; }
        else {
            const uint8_t *p = static_cast<const uint8_t *>(bytes);
            if (used > 4) return "illformed-swallowed-units";
            for (size_t k = 1; k < used; ++k) if (p[base + k] < 0x80 || p[base + k] > 0xBF) return "illformed-swallowed-units";
        }
    }
    return nullptr;
}

} // namespace utfref
