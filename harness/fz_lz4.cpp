// libFuzzer target: lz4::decompress on arbitrary blocks (C14), exact-size input and output blocks, with the
// semantic oracle inside: a non-negative return r must satisfy r <= out_size and the r bytes must equal the
// first r bytes produced by the permissive reference decoder (and may not exceed what it can justify).
// Input: u16 LE out_size selector, then the block.
#include "fz_common.h"
#include "lz4ref.h"
#include "inc/Decompressor.h"

extern "C" int LLVMFuzzerTestOneInput(const uint8_t *data, size_t size) {
    fz::init_stats();
    fz::Stats &S = fz::stats();
    if (size < 2) return 0;
    S.add("execs");
    size_t sel = data[0] | (size_t(data[1]) << 8);
    const uint8_t *blk = data + 2; size_t n = size - 2;
    std::vector<uint8_t> ref;
    lz4ref::Stop why = lz4ref::decode(blk, n, ref, 1u << 20);
    // announced output size: exact, off by a little, or arbitrary
    size_t out_size = (sel & 3) == 0 ? ref.size() : (sel & 3) == 1 ? ref.size() + ((sel >> 2) & 15) : (sel & 3) == 2 ? (ref.size() > ((sel >> 2) & 15) ? ref.size() - ((sel >> 2) & 15) : 0) : (sel >> 2);
    uint8_t *ib = static_cast<uint8_t *>(malloc(n ? n : 1)); memcpy(ib, blk, n);
    uint8_t *ob = static_cast<uint8_t *>(malloc(out_size ? out_size : 1)); memset(ob, 0xA5, out_size ? out_size : 1);
    int r = lz4::decompress(ib, n, ob, out_size);
    if (r >= 0) {
        S.add("accepted");
        // non-trivial: the decoded output is longer than the first literal run, i.e. at least one match was copied
        bool has_match = n && ref.size() > size_t(blk[0] >> 4) + 15 * 0 && size_t(r) > size_t(blk[0] >> 4) && (blk[0] >> 4) != 15;
        if (has_match) { S.add("nontrivial"); S.nt.push_back(fz::fnv(data, size)); }
        if (size_t(r) > out_size) fz::violate("C14", "returned-length-exceeds-announced-output-size");
        if (size_t(r) > ref.size()) fz::violate("C14", "produced-more-bytes-than-a-reference-decoder-can-justify");
        if (r > 0 && memcmp(ob, ref.data(), size_t(r)) != 0) fz::violate("C14", "output-differs-from-reference-decoder");
        if (why == lz4ref::END_OK && size_t(r) == ref.size() && out_size == ref.size()) S.add("exact_roundtrip");
    } else S.add("rejected");
    free(ib); free(ob);
    return 0;
}
