// Helpers for exhaustive enumerators: remember the case being executed so that a sanitizer abort can
// still name it (the death callback prints it), collect labelled failures, print a JSON summary.
#pragma once
#include <cstdint>
#include <cstdio>
#include <cstdlib>
#include <cstring>
#include <map>
#include <string>
#include <vector>

extern "C" void __sanitizer_set_death_callback(void (*)(void));

namespace en {
static char g_current[700];
static const char *g_kind = "";
static uint8_t g_bytes[256]; static size_t g_n = 0; static long g_x = 0;
inline void hex(char *o, const void *d, size_t n) { static const char *hx = "0123456789abcdef"; const uint8_t *p = static_cast<const uint8_t *>(d); for (size_t i = 0; i < n; ++i) { *o++ = hx[p[i] >> 4]; *o++ = hx[p[i] & 15]; } *o = 0; }
inline const char *render() {
    int k = snprintf(g_current, 96, "{\"kind\":\"%s\",\"x\":%ld,\"bytes\":\"", g_kind, g_x);
    hex(g_current + k, g_bytes, g_n);
    strcat(g_current + k + 2 * g_n, "\"}");
    return g_current;
}
inline void death() { fprintf(stderr, "\nCURRENT-CASE %s\n", render()); fflush(stderr); }
inline void init() { __sanitizer_set_death_callback(death); }
// a few stores per case; formatted only when needed
inline void current(const char *kind, const void *d, size_t n, long extra = 0) {
    g_kind = kind; g_x = extra; g_n = n > sizeof g_bytes ? sizeof g_bytes : n; memcpy(g_bytes, d, g_n);
}
struct Fails {
    std::map<std::string, std::pair<unsigned long, std::string>> m;   // label -> (count, first case json)
    void add(const char *label) { auto &e = m[label]; if (!e.first++) e.second = render(); }
    std::string json() const {
        std::string s = "{";
        bool first = true;
        for (auto &kv : m) { if (!first) s += ","; first = false; s += "\"" + kv.first + "\":{\"count\":" + std::to_string(kv.second.first) + ",\"first\":" + kv.second.second + "}"; }
        return s + "}";
    }
};
} // namespace en
