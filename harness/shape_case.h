// One shaping case: make a segment with fully specified arguments, run every invariant, optionally
// dump.  Shared by grdrv (Hypothesis side) and fz_shape (libFuzzer side).
#pragma once
#include "drv_common.h"
#include "seginv.h"

struct ShapeParams {
    float ppm = 0;                 // 0 => font = NULL, < 0 => hinted font (make_any_font)
    uint32_t script = 0;
    int enc = 4;                   // 1,2,4
    int dir = 0;
    int nchars = -1;               // -1 => greedy reference count of the text
    bool nul_terminate = false;    // append a NUL unit to the (exact-size) buffer
    bool check_gid = false;
    bool want_dump = true;
    bool query_all = false;
    bool all_sub = false;
    bool use_lang = false; uint32_t lang = 0;
    std::vector<std::pair<uint32_t, uint16_t>> feats;
    std::vector<uint8_t> text;     // raw code units, little endian host order
};

struct ShapeResult {
    bool seg = false;
    std::vector<seginv::Finding> findings;
    seginv::Stats st;
    std::string dump;
    size_t nchars_used = 0;
    std::vector<PassRec> passes;
    unsigned long fired = 0, late_assoc = 0;
    int feat_set_fail = 0;
};

// Fonts.  ppm > 0: gr_make_font (unhinted).  ppm < 0: a HINTED font of size |ppm| whose advances come from a pure client
// callback with fractional values (odd integer part: gr_make_font_with_ops, even: the deprecated gr_make_font_with_advance_fn).
struct HintCtx { float ppm; };
inline float hint_adv(const void *h, uint16_t gid) { const HintCtx *c = static_cast<const HintCtx *>(h); return c->ppm * 0.45f + 0.37f * float(gid % 7) + 0.21f; }
inline std::map<const gr_font *, HintCtx *> &hint_registry() { static auto *m = new std::map<const gr_font *, HintCtx *>; return *m; }
inline gr_font *make_any_font(float ppm, const gr_face *face) {
    if (!(ppm < 0)) return gr_make_font(ppm, face);
    HintCtx *c = new HintCtx{-ppm};
    gr_font *f;
    if (int(-ppm) & 1) { gr_font_ops ops = {sizeof(gr_font_ops), hint_adv, nullptr}; f = gr_make_font_with_ops(-ppm, c, &ops, face); }
    else f = gr_make_font_with_advance_fn(-ppm, c, hint_adv, face);
    if (f) hint_registry()[f] = c; else delete c;
    return f;
}
inline void destroy_any_font(gr_font *f) {
    if (!f) return;
    gr_font_destroy(f);
    auto it = hint_registry().find(f);
    if (it != hint_registry().end()) { delete it->second; hint_registry().erase(it); }
}

// ext_font / ext_fv: objects owned by the caller (history scenarios); keep: hand the segment to the caller instead of destroying it
inline void run_shape(const gr_face *face, const ShapeParams &sp, ShapeResult &r, const gr_font *ext_font = nullptr, bool use_ext_font = false,
                      const gr_feature_val *ext_fv = nullptr, gr_segment **keep = nullptr) {
    size_t usz = size_t(sp.enc);
    size_t units = sp.text.size() / usz;
    std::vector<uint8_t> tb(sp.text.begin(), sp.text.begin() + units * usz);
    size_t nchars = sp.nchars >= 0 ? size_t(sp.nchars) : utfref::decode(sp.enc, tb.data(), tb.size()).size();
    // Precondition of gr_make_seg (it has no end pointer): the text is either well delimited or NUL terminated.
    // A buffer that ends in a truncated multi-unit sequence is therefore always given its terminator.
    bool truncated_tail = false;
    if (sp.enc == 1 && units) {
        for (size_t k = 1; k <= 3 && k <= units; ++k) {
            uint8_t b = tb[units - k];
            if (b >= 0xC0) { int want = b >= 0xF0 ? 4 : b >= 0xE0 ? 3 : 2; if (int(k) < want) truncated_tail = true; break; }
            if (b < 0x80) break;
        }
    } else if (sp.enc == 2 && units) {
        uint16_t u; memcpy(&u, &tb[(units - 1) * 2], 2);
        if (u >= 0xD800 && u <= 0xDBFF) truncated_tail = true;
    }
    if (sp.nul_terminate || truncated_tail) tb.insert(tb.end(), usz, 0);
    Exact buf(tb);
    gr_font *own_font = (!use_ext_font && sp.ppm != 0) ? make_any_font(sp.ppm, face) : nullptr;
    const gr_font *font = use_ext_font ? ext_font : own_font;
    gr_feature_val *fv = nullptr;
    if (!ext_fv && (sp.use_lang || !sp.feats.empty())) {
        fv = gr_face_featureval_for_lang(face, sp.use_lang ? sp.lang : 0);
        for (auto &kv : sp.feats) {
            const gr_feature_ref *fr = gr_face_find_fref(face, kv.first);
            if (!fr || !gr_fref_set_feature_value(fr, kv.second, fv)) ++r.feat_set_fail;
        }
    }
    hooks().reset();
    gr_segment *seg = gr_make_seg(font, face, sp.script, ext_fv ? ext_fv : fv, gr_encform(sp.enc), buf.p, nchars, sp.dir);
    r.passes = hooks().passes;
    r.fired = hooks().fired;
    r.late_assoc = hooks().late_assoc;
    r.nchars_used = nchars;
    for (auto &pr : r.passes) if (pr.iters > pass_bound(pr)) seginv::add(r.findings, "C02", "rule-loop-iterations-exceed-bound");
    if (seg) {
        r.seg = true;
        seginv::Expect ex; ex.enc = sp.enc; ex.text = buf.p; ex.units = units; ex.nchars = nchars; ex.check_gid = sp.check_gid;
        std::vector<const gr_slot *> sl = seginv::check_segment(face, seg, ex, r.findings, &r.st);
        // a segment whose positions are already known to be non-finite (a C03 finding) is not queried further: gr_slot_attr(gr_slatPosX)
        // converts the position to int, which is undefined for NaN/inf and would abort the process before the finding is reported
        bool nonfinite = false;
        for (auto &f : r.findings) if (f.label.find("not-finite") != std::string::npos) nonfinite = true;
        if (sp.query_all && !nonfinite) seginv::query_all(face, font, seg, sl, sp.all_sub);
        if (sp.want_dump) r.dump = seginv::dump(face, font, seg, sl);
        if (keep) *keep = seg; else gr_seg_destroy(seg);
    }
    if (fv) gr_featureval_destroy(fv);
    if (own_font) destroy_any_font(own_font);
}

inline ShapeParams read_shape_params(Reader &rd) {
    ShapeParams sp;
    sp.ppm = rd.f32();
    sp.script = rd.u32();
    sp.enc = rd.u8();
    sp.dir = rd.u8();
    sp.nchars = rd.i32();
    unsigned fl = rd.u8();
    sp.nul_terminate = fl & 1; sp.check_gid = fl & 2; sp.want_dump = fl & 4; sp.query_all = fl & 8; sp.all_sub = fl & 16; sp.use_lang = fl & 32;
    sp.lang = rd.u32();
    unsigned nf = rd.u16();
    for (unsigned i = 0; i < nf && !rd.bad; ++i) { uint32_t id = rd.u32(); uint16_t v = rd.u16(); sp.feats.push_back({id, v}); }
    sp.text = rd.bytes();
    if (sp.enc != 1 && sp.enc != 2 && sp.enc != 4) rd.bad = true;
    return sp;
}

inline std::string shape_json(const ShapeResult &r) {
    std::string s = "\"seg\":" + std::to_string(int(r.seg)) + ",\"nchars\":" + std::to_string(r.nchars_used) + ",\"fired\":" + std::to_string(r.fired) + ",\"late\":" + std::to_string(r.late_assoc) +
                    ",\"featfail\":" + std::to_string(r.feat_set_fail) + ",\"labels\":[";
    for (size_t i = 0; i < r.findings.size(); ++i) { if (i) s += ","; s += "[\"" + std::string(r.findings[i].prop) + "\"," + jstr(r.findings[i].label) + "]"; }
    s += "],\"passes\":[";
    for (size_t i = 0; i < r.passes.size() && i < 64; ++i) {
        if (i) s += ",";
        s += "[" + std::to_string(r.passes[i].iters) + "," + std::to_string(pass_bound(r.passes[i])) + "," + std::to_string(r.passes[i].maxloop) + "," +
             std::to_string(r.passes[i].slots) + "," + std::to_string(r.passes[i].budget) + "]";
    }
    s += "],\"st\":{\"n\":" + std::to_string(r.st.n) + ",\"nc\":" + std::to_string(r.st.nc) + ",\"att\":" + std::to_string(r.st.attached) + ",\"depth\":" + std::to_string(r.st.max_depth) +
         ",\"reord\":" + std::to_string(int(r.st.order_differs)) + ",\"assoc\":" + std::to_string(int(r.st.assoc_nontrivial)) + "}";
    if (!r.dump.empty()) s += ",\"dump\":" + r.dump;
    return s;
}
