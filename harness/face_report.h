// Calls every gr_face_* / gr_fref_* / gr_featureval_* query on a face and renders the answers as JSON.
// Used as (a) the "every query completes" clause of C01, (b) the face report compared by C08/C10.
#pragma once
#include "drv_common.h"

inline std::string label_json(void *lbl, int enc, uint32_t len) {
    if (!lbl) return "null";
    // length is in code units; the label must be NUL terminated at [len]
    std::string s = "{\"len\":" + std::to_string(len) + ",\"units\":[";
    bool nul_ok = false;
    uint32_t cap = len > 4096 ? 4096 : len;
    for (uint32_t i = 0; i < cap; ++i) {
        uint32_t u = enc == 1 ? static_cast<uint8_t *>(lbl)[i] : enc == 2 ? static_cast<uint16_t *>(lbl)[i] : static_cast<uint32_t *>(lbl)[i];
        if (i) s += ",";
        s += std::to_string(u);
    }
    uint32_t t = enc == 1 ? static_cast<uint8_t *>(lbl)[len] : enc == 2 ? static_cast<uint16_t *>(lbl)[len] : static_cast<uint32_t *>(lbl)[len];
    nul_ok = (t == 0);
    s += "],\"nul\":" + std::to_string(int(nul_ok)) + "}";
    return s;
}

struct ReportOpts {
    bool labels = true;
    std::vector<uint16_t> label_langs = {0x0409};
    std::vector<uint32_t> extra_langs;     // arbitrary language tags to ask featureval_for_lang for
    std::vector<uint32_t> chars;           // code points for is_char_supported
    std::vector<uint32_t> scripts = {0};
    unsigned max_settings = 64;
};

inline std::string featureval_json(const gr_face *face, const gr_feature_val *fv) {
    std::string s = "[";
    unsigned n = gr_face_n_fref(face);
    for (unsigned i = 0; i < n; ++i) {
        const gr_feature_ref *fr = gr_face_fref(face, uint16_t(i));
        if (i) s += ",";
        s += std::to_string(fr ? gr_fref_feature_value(fr, fv) : 0xFFFFFFFFu);
    }
    return s + "]";
}

inline std::string face_report(const gr_face *face, const ReportOpts &ro) {
    std::string s = "{\"n_glyphs\":" + std::to_string(gr_face_n_glyphs(face));
    unsigned nf = gr_face_n_fref(face);
    s += ",\"n_fref\":" + std::to_string(nf) + ",\"frefs\":[";
    for (unsigned i = 0; i < nf; ++i) {
        const gr_feature_ref *fr = gr_face_fref(face, uint16_t(i));
        if (i) s += ",";
        if (!fr) { s += "null"; continue; }
        uint32_t id = gr_fref_id(fr);
        unsigned nv = gr_fref_n_values(fr);
        s += "{\"id\":" + std::to_string(id) + ",\"nv\":" + std::to_string(nv) + ",\"vals\":[";
        unsigned lim = nv < ro.max_settings ? nv : ro.max_settings;
        for (unsigned k = 0; k < lim; ++k) { if (k) s += ","; s += std::to_string(gr_fref_value(fr, uint16_t(k))); }
        // out-of-range setting numbers must be answered safely too
        s += "],\"oob\":[" + std::to_string(gr_fref_value(fr, uint16_t(nv))) + "," + std::to_string(gr_fref_value(fr, uint16_t(nv + 1))) + "," + std::to_string(gr_fref_value(fr, 0xFFFF)) + "]";
        const gr_feature_ref *found = gr_face_find_fref(face, id);
        s += ",\"find_same\":" + std::to_string(int(found == fr));
        if (ro.labels) {
            s += ",\"labels\":[";
            bool first = true;
            for (uint16_t lang : ro.label_langs) for (int enc : {1, 2, 4}) {
                uint16_t l = lang; uint32_t len = 0;
                void *lbl = gr_fref_label(fr, &l, gr_encform(enc), &len);
                if (!first) s += ","; first = false;
                s += "{\"q\":" + std::to_string(lang) + ",\"enc\":" + std::to_string(enc) + ",\"lang\":" + std::to_string(l) + ",\"l\":" + label_json(lbl, enc, len) + "}";
                if (lbl) gr_label_destroy(lbl);
            }
            s += "],\"vlabels\":[";
            first = true;
            for (unsigned k = 0; k <= lim && k < 8; ++k) for (int enc : {1, 2, 4}) {   // k == nv: one past the end
                uint16_t l = ro.label_langs.empty() ? 0x0409 : ro.label_langs[0]; uint32_t len = 0;
                void *lbl = gr_fref_value_label(fr, uint16_t(k), &l, gr_encform(enc), &len);
                if (!first) s += ","; first = false;
                s += "{\"k\":" + std::to_string(k) + ",\"enc\":" + std::to_string(enc) + ",\"lang\":" + std::to_string(l) + ",\"l\":" + label_json(lbl, enc, len) + "}";
                if (lbl) gr_label_destroy(lbl);
            }
            s += "]";
        }
        s += "}";
    }
    s += "],\"langs\":[";
    unsigned nl = gr_face_n_languages(face);
    for (unsigned i = 0; i < nl; ++i) { if (i) s += ","; s += std::to_string(gr_face_lang_by_index(face, uint16_t(i))); }
    s += "],\"lang_oob\":" + std::to_string(gr_face_lang_by_index(face, uint16_t(nl))) + ",\"fv\":{";
    {
        std::vector<uint32_t> langs = {0};
        for (unsigned i = 0; i < nl && i < 64; ++i) langs.push_back(gr_face_lang_by_index(face, uint16_t(i)));
        for (uint32_t x : ro.extra_langs) langs.push_back(x);
        bool first = true;
        std::map<uint32_t, bool> done;
        for (uint32_t lg : langs) {
            if (done.count(lg)) continue; done[lg] = true;
            gr_feature_val *fv = gr_face_featureval_for_lang(face, lg);
            if (!first) s += ","; first = false;
            s += "\"" + std::to_string(lg) + "\":";
            if (!fv) { s += "null"; continue; }
            gr_feature_val *cl = gr_featureval_clone(fv);
            s += featureval_json(face, fv);
            if (cl) { if (featureval_json(face, cl) != featureval_json(face, fv)) s += ",\"CLONE_DIFFERS\":1"; gr_featureval_destroy(cl); }
            gr_featureval_destroy(fv);
        }
    }
    {   // an unbound set (gr_featureval_clone(NULL)): set the first, then the last feature (the set has to grow), read everything back
        gr_feature_val *u = gr_featureval_clone(nullptr);
        if (u && nf) {
            std::string us = "[";
            for (unsigned pick : {0u, nf - 1, nf / 2}) {
                const gr_feature_ref *fr = gr_face_fref(face, uint16_t(pick));
                if (!fr) continue;
                unsigned nv = gr_fref_n_values(fr);
                uint16_t v = nv ? uint16_t(gr_fref_value(fr, uint16_t(nv - 1))) : 1;
                int ok = gr_fref_set_feature_value(fr, v, u);
                us += std::to_string(ok) + ":" + std::to_string(gr_fref_feature_value(fr, u)) + (ok && gr_fref_feature_value(fr, u) != v ? "!LOST" : "") + ",";
            }
            s += "},\"unbound\":{\"sets\":\"" + us + "]\",\"vals\":" + featureval_json(face, u);
        }
        if (u) gr_featureval_destroy(u);
    }
    s += "},\"find_absent\":" + std::to_string(int(gr_face_find_fref(face, 0x7A7A7A7Au) != nullptr));
    s += ",\"info\":[";
    for (size_t i = 0; i < ro.scripts.size(); ++i) {
        const gr_faceinfo *fi = gr_face_info(face, ro.scripts[i]);
        if (i) s += ",";
        if (!fi) { s += "null"; continue; }
        s += "[" + std::to_string(fi->extra_ascent) + "," + std::to_string(fi->extra_descent) + "," + std::to_string(fi->upem) + "," + std::to_string(int(fi->space_contextuals)) + "," +
             std::to_string(fi->has_bidi_pass) + "," + std::to_string(fi->line_ends) + "," + std::to_string(fi->justifies) + "]";
    }
    s += "],\"sup\":\"";
    for (uint32_t c : ro.chars) s += gr_face_is_char_supported(face, c, 0) ? '1' : '0';
    s += "\"}";
    return s;
}
