// grdrv: persistent command driver.  Reads length-prefixed binary requests on stdin, writes one JSON
// line per request on stdout.  A sanitizer report aborts the process; the Python side turns EOF +
// stderr into an exception, restarts the driver and lets Hypothesis shrink.
#define DRV_DEFINE_HOOKS
#include <tuple>
#include <unistd.h>
#include "drv_common.h"
#include "shape_case.h"
#include "face_report.h"
#include "drv_components.h"
#include "drv_scenarios.h"

static std::map<uint32_t, std::vector<uint8_t>> g_fonts;   // font store (bytes only; faces are per case)

static const std::vector<uint8_t> *font_of(uint32_t id) {
    auto it = g_fonts.find(id);
    return it == g_fonts.end() ? nullptr : &it->second;
}

static std::string ledger_json(const FaceBox &fb) {
    if (!fb.mf) return "null";
    const MemFace &m = *fb.mf;
    std::string s = "{\"gets\":" + std::to_string(m.gets) + ",\"rel\":" + std::to_string(m.releases) + ",\"nullgets\":" + std::to_string(m.null_gets) +
                    ",\"out\":" + std::to_string(m.outstanding()) + ",\"after_freeze\":" + std::to_string(m.gets_after_freeze) + ",\"errors\":[";
    for (size_t i = 0; i < m.errors.size(); ++i) { if (i) s += ","; s += jstr(m.errors[i]); }
    return s + "]}";
}

static std::string cmd_tag(Reader &rd) {
    unsigned op = rd.u8();
    if (op == 0) {              // gr_str_to_tag on a C string held in an exact-size heap buffer
        std::vector<uint8_t> str = rd.bytes();
        str.push_back(0);
        Exact b(str);
        uint32_t t = gr_str_to_tag(reinterpret_cast<const char *>(b.p));
        return "{\"tag\":" + std::to_string(t) + "}";
    }
    if (op == 1) {              // gr_tag_to_str into an exact 4-byte heap buffer (the documented size)
        uint32_t tag = rd.u32();
        uint8_t fill = rd.u8();
        uint8_t *b = static_cast<uint8_t *>(malloc(4));
        memset(b, fill, 4);
        gr_tag_to_str(tag, reinterpret_cast<char *>(b));
        std::string r = "{\"bytes\":" + jhex(b, 4) + "}";
        free(b);
        return r;
    }
    if (op == 2) {              // gr_tag_to_str into the middle of a larger buffer: which bytes changed?
        uint32_t tag = rd.u32();
        uint8_t fill = rd.u8();
        uint8_t b[16]; memset(b, fill, sizeof b);
        gr_tag_to_str(tag, reinterpret_cast<char *>(b + 4));
        return "{\"buf\":" + jhex(b, 16) + "}";
    }
    return "{\"error\":\"bad tag op\"}";
}

static std::string cmd_utf(Reader &rd) {
    int enc = rd.u8();
    unsigned mode = rd.u8();          // 0: buffer_end = exact end; 1: buffer_end = NULL (text must contain a NUL)
    std::vector<uint8_t> t = rd.bytes();
    if (rd.bad || (enc != 1 && enc != 2 && enc != 4) || t.size() % enc) return "{\"error\":\"bad utf request\"}";
    Exact b(t);
    const void *err = reinterpret_cast<const void *>(uintptr_t(0x1));   // sentinel: must be overwritten
    size_t n = gr_count_unicode_characters(gr_encform(enc), b.p, mode ? nullptr : b.p + b.n, &err);
    long eoff = -1; int ewritten = 1;
    if (err == reinterpret_cast<const void *>(uintptr_t(0x1))) ewritten = 0;
    else if (err) eoff = long(static_cast<const uint8_t *>(err) - b.p);
    size_t n2 = gr_count_unicode_characters(gr_encform(enc), b.p, mode ? nullptr : b.p + b.n, nullptr);   // pError may be NULL
    return "{\"count\":" + std::to_string(n) + ",\"err\":" + std::to_string(eoff) + ",\"errset\":" + std::to_string(ewritten) + ",\"count_noerr\":" + std::to_string(n2) + "}";
}

// Cached faces (src | 0x80): for properties that are not about histories or loading, one face per
// (font, source, options) is reused across cases, which makes the multi-megabyte shipped fonts affordable.
struct Cached { std::unique_ptr<Exact> buf; std::unique_ptr<FaceBox> fb; };
static std::map<std::tuple<uint32_t, int, unsigned>, Cached> g_faces;

static void drop_cached(uint32_t fid) {
    for (auto it = g_faces.begin(); it != g_faces.end();) if (std::get<0>(it->first) == fid) it = g_faces.erase(it); else ++it;
}

static gr_face *cached_face(uint32_t fid, int src, unsigned opts) {
    auto key = std::make_tuple(fid, src, opts);
    auto it = g_faces.find(key);
    if (it != g_faces.end()) return it->second.fb->face;
    const std::vector<uint8_t> *font = font_of(fid);
    if (!font) return nullptr;
    Cached c;
    c.buf.reset(new Exact(*font));
    c.fb.reset(new FaceBox);
    make_face(*c.fb, c.buf->p, c.buf->n, src, opts);
    gr_face *f = c.fb->face;
    g_faces[key] = std::move(c);
    return f;
}

static std::string cmd_shape(Reader &rd) {
    uint32_t fid = rd.u32();
    int src = rd.u8();
    unsigned opts = rd.u8();
    ShapeParams sp = read_shape_params(rd);
    const std::vector<uint8_t> *font = font_of(fid);
    if (rd.bad || !font) return "{\"error\":\"bad shape request\"}";
    if (src & 0x80) {
        gr_face *face = cached_face(fid, src & 0x7f, opts);
        if (!face) return "{\"face\":0}";
        ShapeResult r;
        run_shape(face, sp, r);
        return "{\"face\":1," + shape_json(r) + "}";
    }
    Exact fbuf(*font);
    std::string out;
    {
        FaceBox fb;
        hooks().reset();
        make_face(fb, fbuf.p, fbuf.n, src, opts);
        if (!fb.face) {
            out = "{\"face\":0,\"lerr\":[" + std::to_string(hooks().load_err) + "," + std::to_string(hooks().load_ctx) + "],\"ledger\":" + ledger_json(fb) + "}";
            return out;
        }
        if (fb.mf && (opts & gr_face_preloadAll) == gr_face_preloadAll) fb.mf->frozen = true;
        ShapeResult r;
        run_shape(fb.face, sp, r);
        out = "{\"face\":1," + shape_json(r);
        fb.destroy();
        out += ",\"ledger\":" + ledger_json(fb) + "}";
    }
    return out;
}

static ReportOpts read_report_opts(Reader &rd) {
    ReportOpts ro;
    unsigned fl = rd.u8();
    ro.labels = fl & 1;
    unsigned n = rd.u16(); ro.label_langs.clear(); for (unsigned i = 0; i < n && !rd.bad; ++i) ro.label_langs.push_back(rd.u16());
    n = rd.u16(); for (unsigned i = 0; i < n && !rd.bad; ++i) ro.extra_langs.push_back(rd.u32());
    n = rd.u16(); for (unsigned i = 0; i < n && !rd.bad; ++i) ro.chars.push_back(rd.u32());
    n = rd.u16(); ro.scripts.clear(); for (unsigned i = 0; i < n && !rd.bad; ++i) ro.scripts.push_back(rd.u32());
    if (ro.scripts.empty()) ro.scripts.push_back(0);
    return ro;
}

static std::string cmd_report(Reader &rd) {
    uint32_t fid = rd.u32();
    int src = rd.u8();
    unsigned opts = rd.u8();
    ReportOpts ro = read_report_opts(rd);
    const std::vector<uint8_t> *font = font_of(fid);
    if (rd.bad || !font) return "{\"error\":\"bad report request\"}";
    Exact fbuf(*font);
    FaceBox fb;
    hooks().reset();
    make_face(fb, fbuf.p, fbuf.n, src, opts);
    if (!fb.face) return "{\"face\":0,\"lerr\":[" + std::to_string(hooks().load_err) + "," + std::to_string(hooks().load_ctx) + "],\"ledger\":" + ledger_json(fb) + "}";
    std::string rep = face_report(fb.face, ro);
    fb.destroy();
    return "{\"face\":1,\"report\":" + rep + ",\"ledger\":" + ledger_json(fb) + "}";
}

int main(int argc, char **argv) {
    setvbuf(stdout, nullptr, _IOFBF, 1 << 16);
    std::vector<uint8_t> req;
    for (;;) {
        uint32_t len;
        if (fread(&len, 4, 1, stdin) != 1) break;
        req.resize(len);
        if (len && fread(req.data(), 1, len, stdin) != len) break;
        alarm(300);        // backstop: a request that never returns must not outlive a dead client (the client's own watchdog is 8..60 s)
        Reader rd(req.data(), req.size());
        std::string out;
        switch (rd.u8()) {
        case 'P': { uint32_t id = rd.u32(); g_fonts[id] = rd.bytes(); out = rd.bad ? "{\"error\":\"bad put\"}" : "{\"ok\":1}"; break; }
        case 'X': { uint32_t id = rd.u32(); drop_cached(id); g_fonts.erase(id); out = "{\"ok\":1}"; break; }
        case 'T': out = cmd_tag(rd); break;
        case 'U': out = cmd_utf(rd); break;
        case 'S': out = cmd_shape(rd); break;
        case 'R': out = cmd_report(rd); break;
        case 'Q': g_faces.clear(); return 0;
        default:  out = dispatch_components(req[0], rd, g_fonts);
                  if (out.empty()) out = dispatch_scenarios(req[0], rd, g_fonts);
                  if (out.empty()) out = "{\"error\":\"unknown command\"}";
        }
        fputs(out.c_str(), stdout);
        fputc('\n', stdout);
        fflush(stdout);
        alarm(0);
    }
    return 0;
}
