// C17 (interval set): generated operation sequences on graphite2::Zones against an interval model.
//   pbt_zones run <seed> <ncases>        -> JSON summary (+ shrunk first failure per label)
//   pbt_zones replay <seed> <case> [mask] -> re-generates that case (mask: decimal indices of ops to keep, comma separated) and judges it
// Invariants after EVERY operation: the exclusion list is sorted, pairwise disjoint (xm_i <= x_{i+1}), inside
// [pos, posm], each x <= xm.  closest(o): "none" (cost < 0) only if the model has no free point; otherwise the
// offered position is finite, inside [pos, posm] and not strictly inside any removed interval.
// Endpoints come from a small pool, so equal / nested / touching / crossing intervals are frequent.
#include <iterator>
#include <utility>
#include "inc/Intervals.h"
#include "enum_common.h"
#include <algorithm>
#include <cmath>

using namespace graphite2;

struct Rng { uint64_t s; explicit Rng(uint64_t x) : s(x * 0x9E3779B97F4A7C15ull + 0x2545F4914F6CDD1Dull) { next(); next(); }
    uint64_t next() { s ^= s << 13; s ^= s >> 7; s ^= s << 17; return s; } unsigned operator()(unsigned n) { return unsigned(next() % n); } };

struct Op { int kind; float a, b; int axis; float f, a0, m, xi, ai, c; bool nega; float origin; };
struct Case { bool sd; float lo, hi, margin, mw, a0; std::vector<Op> ops; };

static const float POOL[] = {-300, -150, -100, -50, -20, -10, -1, 0, 1, 5, 10, 20, 50, 75, 100, 150, 200, 300, 500, 750};
static float pick(Rng &r) { return r(4) ? POOL[r(20)] : float(int(r(2000)) - 1000) / float(1 + r(3)); }

static Case gen(uint64_t seed, unsigned long idx) {
    Rng r(seed * 1000003ull + idx);
    Case c;
    c.lo = pick(r); c.hi = pick(r); if (c.lo > c.hi) std::swap(c.lo, c.hi);
    c.sd = r(2); c.margin = float(r(30)); c.mw = float(r(5)); c.a0 = pick(r);
    unsigned n = 1 + r(40);
    for (unsigned k = 0; k < n; ++k) {
        Op o{};
        o.kind = int(r(3));
        o.a = pick(r); o.b = pick(r); if (o.a > o.b) std::swap(o.a, o.b);
        o.axis = int(r(4)); o.f = float(r(3)); o.a0 = pick(r); o.m = float(r(4)); o.xi = pick(r); o.ai = pick(r); o.c = float(r(100)); o.nega = r(2);
        o.origin = pick(r);
        c.ops.push_back(o);
    }
    return c;
}

// returns label of the first violated invariant, or nullptr; stats via out params
static const char *judge(const Case &c, const std::vector<bool> *keep, unsigned long *nops, unsigned long *offers, unsigned long *nones, unsigned long *zero_len) {
    Zones z;
    if (c.sd) z.initialise<SD>(c.lo, c.hi, c.margin, c.mw, c.a0); else z.initialise<XY>(c.lo, c.hi, c.margin, c.mw, c.a0);
    std::vector<std::pair<float, float>> removed;
    for (size_t k = 0; k < c.ops.size(); ++k) {
        if (keep && !(*keep)[k]) continue;
        const Op &o = c.ops[k];
        if (nops) ++*nops;
        if (o.kind == 0) { z.exclude(o.a, o.b); removed.push_back({o.a, o.b}); }
        else if (o.kind == 1) { z.exclude_with_margins(o.a, o.b, o.axis); removed.push_back({o.a, o.b}); }
        else z.weightedAxis(o.axis, o.a, o.b, o.f, o.a0, o.m, o.xi, o.ai, o.c, o.nega);
        float prev = -INFINITY; bool first = true;
        for (Zones::const_iterator i = z.begin(); i != z.end(); ++i) {
            if (!(i->x <= i->xm)) return "interval-inverted";
            if (i->x == i->xm && zero_len) ++*zero_len;
            if (!first && i->x < prev) return "intervals-overlap-or-unsorted";
            if (i->x < c.lo || i->xm > c.hi) return "interval-outside-bounds";
            prev = i->xm; first = false;
        }
        float cost = 0;
        float p = z.closest(o.origin, cost);
        if (cost >= 0) {
            if (offers) ++*offers;
            if (!std::isfinite(p)) return "offered-position-not-finite";
            if (p < c.lo || p > c.hi) return "offered-position-outside-bounds";
            // a removal (a, b) excludes every position strictly inside it, whatever the bounds of the range are
            for (auto &rm : removed)
                if (rm.first < p && p < rm.second) return "offered-position-was-excluded";
        } else {
            if (nones) ++*nones;
            std::vector<std::pair<float, float>> rs;
            for (auto &rm : removed) { float rx = std::max(rm.first, c.lo), rxm = std::min(rm.second, c.hi); if (rx < rxm) rs.push_back({rx, rxm}); }
            std::sort(rs.begin(), rs.end());
            float cur = c.lo; bool gap = false;
            for (auto &q : rs) { if (q.first > cur) { gap = true; break; } cur = std::max(cur, q.second); }
            if (cur < c.hi) gap = true;
            if (c.lo == c.hi) {                              // a range of one point: free unless some removal strictly contains it
                gap = true;
                for (auto &rm : removed) if (rm.first < c.lo && c.lo < rm.second) gap = false;
            }
            if (gap) return "no-position-offered-although-a-free-interval-exists";
        }
    }
    return nullptr;
}

static std::string case_json(uint64_t seed, unsigned long idx, const Case &c, const std::vector<bool> &keep) {
    char b[256];
    std::string s;
    snprintf(b, sizeof b, "{\"kind\":\"zones\",\"seed\":%llu,\"case\":%lu,\"sd\":%d,\"lo\":%g,\"hi\":%g,\"margin\":%g,\"mw\":%g,\"keep\":[", (unsigned long long)seed, idx, int(c.sd), c.lo, c.hi, c.margin, c.mw);
    s = b;
    bool first = true;
    for (size_t k = 0; k < keep.size(); ++k) if (keep[k]) { if (!first) s += ","; first = false; s += std::to_string(k); }
    s += "],\"ops\":[";
    first = true;
    for (size_t k = 0; k < keep.size(); ++k) if (keep[k]) {
        const Op &o = c.ops[k];
        snprintf(b, sizeof b, "%s[\"%s\",%g,%g,%d,%g,%g,%g,\"closest\",%g]", first ? "" : ",", o.kind == 0 ? "exclude" : o.kind == 1 ? "exclude_with_margins" : "weighted", o.a, o.b, o.axis, o.f, o.m, o.c, o.origin);
        s += b; first = false;
    }
    return s + "]}";
}

int main(int argc, char **argv) {
    if (argc < 4) return 3;
    std::string mode = argv[1];
    uint64_t seed = strtoull(argv[2], nullptr, 10);
    if (mode == "replay") {
        unsigned long idx = strtoul(argv[3], nullptr, 10);
        Case c = gen(seed, idx);
        std::vector<bool> keep(c.ops.size(), argc <= 4);
        if (argc > 4) { char *p = argv[4]; while (*p) { size_t k = strtoul(p, &p, 10); if (k < keep.size()) keep[k] = true; if (*p == ',') ++p; } }
        const char *l = judge(c, &keep, nullptr, nullptr, nullptr, nullptr);
        printf("{\"label\":%s%s%s}\n", l ? "\"" : "", l ? l : "null", l ? "\"" : "");
        return 0;
    }
    unsigned long n = strtoul(argv[3], nullptr, 10);
    unsigned long nops = 0, offers = 0, nones = 0, zero = 0, nontrivial = 0;
    std::map<std::string, std::pair<unsigned long, std::string>> fails;
    std::string sample;
    for (unsigned long i = 0; i < n; ++i) {
        Case c = gen(seed, i);
        unsigned long o0 = offers, n0 = nones;
        const char *l = judge(c, nullptr, &nops, &offers, &nones, &zero);
        if (c.ops.size() >= 3 && (nones > n0 || offers > o0)) ++nontrivial;
        if (i == 7) sample = case_json(seed, i, c, std::vector<bool>(c.ops.size(), true));
        if (l) {
            auto &e = fails[l];
            if (!e.first++) {
                // shrink: drop operations (and trailing ones) while the same label still fires
                std::vector<bool> keep(c.ops.size(), true);
                bool progress = true;
                while (progress) {
                    progress = false;
                    for (size_t k = c.ops.size(); k-- > 0;) {
                        if (!keep[k]) continue;
                        keep[k] = false;
                        const char *l2 = judge(c, &keep, nullptr, nullptr, nullptr, nullptr);
                        if (l2 && !strcmp(l2, l)) progress = true; else keep[k] = true;
                    }
                }
                e.second = case_json(seed, i, c, keep);
            }
        }
    }
    std::string fj = "{";
    bool first = true;
    for (auto &kv : fails) { if (!first) fj += ","; first = false; fj += "\"" + kv.first + "\":{\"count\":" + std::to_string(kv.second.first) + ",\"first\":" + kv.second.second + "}"; }
    fj += "}";
    printf("{\"evaluations\":%lu,\"cases\":%lu,\"nontrivial\":%lu,\"offers\":%lu,\"none\":%lu,\"zero_length_intervals\":%lu,\"sample\":%s,\"fails\":%s}\n", nops, n, nontrivial, offers, nones, zero,
           sample.empty() ? "null" : sample.c_str(), fj.c_str());
    return 0;
}
