// C13 enumerator (stand-alone form; the same sweep is available as grdrv command 'M'):
//   usage: enum_cmap <font> [<font> ...]
#define DRV_DEFINE_HOOKS
#include "cmap_sweep.h"
#include "enum_common.h"

int main(int argc, char **argv) {
    en::init();
    std::string out = "[";
    unsigned stride = 1;
    int a0 = 1;
    if (argc > 2 && !strcmp(argv[1], "--stride")) { stride = unsigned(atoi(argv[2])); a0 = 3; }
    for (int ai = a0; ai < argc; ++ai) {
        std::vector<uint8_t> font;
        { FILE *f = fopen(argv[ai], "rb"); if (!f) { perror(argv[ai]); return 3; } uint8_t b[65536]; size_t n; while ((n = fread(b, 1, sizeof b, f)) > 0) font.insert(font.end(), b, b + n); fclose(f); }
        CmapSweep sw;
        sweep_font(font, sw, [&](uint32_t usv) { uint8_t cb[4] = {uint8_t(usv >> 24), uint8_t(usv >> 16), uint8_t(usv >> 8), uint8_t(usv)}; en::current("cmap", cb, 4, ai); }, 0xFFFFFFFEu, stride);
        if (ai > a0) out += ",";
        out += sw.json();
    }
    printf("{\"fonts\":%s]}\n", out.c_str());
    return 0;
}
