// Segment invariant checker (C02..C05 predicates, each with its own label) and canonical dump.
// Uses only the public C API, so it states the properties at the level the user relies on.
#pragma once
#include <graphite2/Font.h>
#include <graphite2/Segment.h>
#include <cmath>
#include <cstdio>
#include <cstdint>
#include <map>
#include <set>
#include <string>
#include <vector>
#include "utfref.h"

namespace seginv {

struct Finding { const char *prop; std::string label; };

struct Expect {
    int enc = 0;                 // 1,2,4 ; 0 = no text expectations
    const void *text = nullptr;  // raw code units
    size_t units = 0;            // number of code units in text
    size_t nchars = 0;           // nChars passed to gr_make_seg
    bool check_gid = false;      // C03 glyph-id clause (class-closed fonts only)
};

struct Stats {
    unsigned n = 0, nc = 0;
    unsigned attached = 0, max_depth = 0;
    bool order_differs = false;        // index order != stream order
    bool assoc_nontrivial = false;     // some slot has before != after or n != nc
};

inline void add(std::vector<Finding> &out, const char *prop, const char *label) {
    for (auto &f : out) if (f.label == label) return;
    out.push_back({prop, label});
}

// Returns the slots in stream order (possibly truncated when the chain is broken).
inline std::vector<const gr_slot *> check_segment(const gr_face *face, gr_segment *seg, const Expect &ex,
                                                  std::vector<Finding> &out, Stats *st = nullptr) {
    const unsigned n = gr_seg_n_slots(seg), nc = gr_seg_n_cinfo(seg);
    const unsigned ng = gr_face_n_glyphs(face);
    std::vector<const gr_slot *> sl;
    std::set<const gr_slot *> seen;
    const gr_slot *last = nullptr;
    bool chain_ok = true;
    for (const gr_slot *p = gr_seg_first_slot(seg); p; p = gr_slot_next_in_segment(p)) {
        if (gr_slot_prev_in_segment(p) != last) add(out, "C03", "prev-not-inverse-of-next");
        if (!seen.insert(p).second) { add(out, "C03", "next-chain-cycle"); chain_ok = false; break; }
        sl.push_back(p);
        last = p;
        if (sl.size() > size_t(n) + 4) { add(out, "C03", "next-chain-longer-than-n_slots"); chain_ok = false; break; }
    }
    if (chain_ok) {
        if (sl.size() != n) add(out, "C03", "next-chain-length-ne-n_slots");
        if (last != gr_seg_last_slot(seg)) add(out, "C03", "chain-end-ne-last_slot");
    }
    if (ex.nchars && n > 64 * ex.nchars) add(out, "C02", "more-than-64-slots-per-char");
    if (!ex.nchars && ex.enc && n > 64) add(out, "C02", "more-than-64-slots-per-char");

    // C03: indices, finiteness, gid
    std::vector<int> idx(sl.size(), 0);
    bool order_differs = false;
    for (size_t k = 0; k < sl.size(); ++k) {
        const gr_slot *p = sl[k];
        unsigned i = gr_slot_index(p);
        if (i >= sl.size()) add(out, "C03", "slot-index-out-of-range");
        else { idx[i]++; if (i != k) order_differs = true; }
        if (ex.check_gid && gr_slot_gid(p) >= ng) add(out, "C03", "gid-ge-n_glyphs");
        float ox = gr_slot_origin_X(p), oy = gr_slot_origin_Y(p);
        float ax = gr_slot_advance_X(p, face, nullptr), ay = gr_slot_advance_Y(p, face, nullptr);
        if (!std::isfinite(ox) || !std::isfinite(oy)) add(out, "C03", "origin-not-finite");
        if (!std::isfinite(ax) || !std::isfinite(ay)) add(out, "C03", "advance-not-finite");
    }
    for (size_t i = 0; i < idx.size(); ++i) if (idx[i] != 1) { add(out, "C03", "slot-index-not-permutation"); break; }
    if (!std::isfinite(gr_seg_advance_X(seg)) || !std::isfinite(gr_seg_advance_Y(seg))) add(out, "C03", "segment-advance-not-finite");

    // C04: forest
    unsigned attached = 0, max_depth = 0;
    std::vector<const gr_slot *> bases;
    for (const gr_slot *p : sl) {
        const gr_slot *q = p; unsigned steps = 0; bool bad = false;
        while (gr_slot_attached_to(q)) {
            q = gr_slot_attached_to(q);
            if (!seen.count(q)) { add(out, "C04", "parent-outside-segment"); bad = true; break; }
            if (++steps > n) { add(out, "C04", "parent-chain-cycle"); bad = true; break; }
        }
        if (steps > max_depth) max_depth = steps;
        const gr_slot *par = gr_slot_attached_to(p);
        if (par) {
            ++attached;
            if (bad || !seen.count(par)) continue;
            int cnt = 0; unsigned k = 0;
            for (const gr_slot *c = gr_slot_first_attachment(par); c && k <= n + 1; c = gr_slot_next_sibling_attachment(c), ++k) {
                if (!seen.count(c)) { add(out, "C04", "child-outside-segment"); break; }
                if (c == p) ++cnt;
                if (gr_slot_attached_to(c) != par) add(out, "C04", "child-chain-member-names-other-parent");
            }
            if (k > n + 1) add(out, "C04", "child-chain-cycle");
            else if (cnt != 1) add(out, "C04", cnt == 0 ? "attached-slot-missing-from-parents-child-chain" : "attached-slot-twice-in-child-chain");
        } else bases.push_back(p);
    }
    if (!bases.empty() && chain_ok) {
        std::map<const gr_slot *, int> indeg;
        for (const gr_slot *b : bases) {
            const gr_slot *nx = gr_slot_next_sibling_attachment(b);
            if (nx) {
                if (!seen.count(nx)) { add(out, "C04", "base-sibling-outside-segment"); continue; }
                if (gr_slot_attached_to(nx)) add(out, "C04", "base-chain-contains-attached-slot");
                indeg[nx]++;
            }
        }
        std::vector<const gr_slot *> heads;
        for (const gr_slot *b : bases) if (!indeg.count(b)) heads.push_back(b);
        if (heads.size() != 1) add(out, "C04", "base-chain-not-single");
        else {
            std::set<const gr_slot *> v; const gr_slot *b = heads[0];
            while (b && seen.count(b) && v.insert(b).second) b = gr_slot_next_sibling_attachment(b);
            if (v.size() != bases.size()) add(out, "C04", "base-chain-does-not-cover-bases");
        }
    }

    // C05: associations
    bool assoc_nontrivial = (n != nc);
    if (ex.enc && nc != ex.nchars) add(out, "C05", "n_cinfo-ne-nChars");
    std::vector<char> cover(nc, 0);
    for (const gr_slot *p : sl) {
        int b = gr_slot_before(p), a = gr_slot_after(p), o = gr_slot_original(p);
        if (b < 0 || b >= int(nc)) add(out, "C05", "slot-before-out-of-range");
        if (a < 0 || a >= int(nc)) add(out, "C05", "slot-after-out-of-range");
        if (o < 0 || o >= int(nc)) add(out, "C05", "slot-original-out-of-range");
        if (b != a) assoc_nontrivial = true;
        if (b >= 0 && a < int(nc)) for (int i = b; i <= a; ++i) cover[i] = 1;
    }
    if (!sl.empty() && chain_ok) for (unsigned i = 0; i < nc; ++i) if (!cover[i]) { add(out, "C05", "char-not-covered-by-any-slot"); break; }
    for (unsigned i = 0; i < nc; ++i) {
        const gr_char_info *c = gr_seg_cinfo(seg, i);
        if (n) {
            int b = gr_cinfo_before(c), a = gr_cinfo_after(c);
            if (b < 0 || b >= int(n)) add(out, "C05", "cinfo-before-out-of-range");
            if (a < 0 || a >= int(n)) add(out, "C05", "cinfo-after-out-of-range");
        }
        if (ex.enc) {
            size_t base = gr_cinfo_base(c);
            size_t next = SIZE_MAX;
            if (i + 1 < nc) next = gr_cinfo_base(gr_seg_cinfo(seg, i + 1));
            const char *l = utfref::judge_char(ex.enc, ex.text, ex.units, base, next, gr_cinfo_unicode_char(c));
            if (l) add(out, "C05", l);
            if (i == 0 && base != 0) add(out, "C05", "first-cinfo-base-not-0");
        }
    }
    if (st) { st->n = n; st->nc = nc; st->attached = attached; st->max_depth = max_depth; st->order_differs = order_differs; st->assoc_nontrivial = assoc_nontrivial; }
    return sl;
}

// exercise every query the API offers on a segment (C02: "all gr_seg_*, gr_slot_*, gr_cinfo_* complete")
inline unsigned long query_all(const gr_face *face, const gr_font *font, gr_segment *seg, const std::vector<const gr_slot *> &sl, bool all_sub) {
    unsigned long h = 0;
    for (const gr_slot *p : sl) {
        h += gr_slot_gid(p) + gr_slot_can_insert_before(p) + gr_slot_original(p);
        float a = gr_slot_advance_X(p, face, font) + gr_slot_advance_Y(p, face, font);
        h += std::isfinite(a) ? 1 : 0;
        for (int code = 0; code <= int(gr_slatNoEffect) + 2; ++code) {
            int subs = (code == gr_slatUserDefn || code == gr_slatUserDefnV1 || (code >= gr_slatJStretch && code < gr_slatSegSplit)) ? (all_sub ? 256 : 20) : 2;
            for (int s = 0; s < subs; ++s) h += (unsigned long)gr_slot_attr(p, seg, gr_attrCode(code), uint8_t(s == 1 && subs == 2 ? 255 : s));
        }
    }
    unsigned nc = gr_seg_n_cinfo(seg);
    for (unsigned i = 0; i < nc; ++i) {
        const gr_char_info *c = gr_seg_cinfo(seg, i);
        h += gr_cinfo_unicode_char(c) + gr_cinfo_break_weight(c) + gr_cinfo_after(c) + gr_cinfo_before(c) + gr_cinfo_base(c);
    }
    return h;
}

inline void fl(std::string &s, float v) { char b[48]; snprintf(b, sizeof b, "\"%a\"", double(v)); s += b; }

// Canonical dump: exact (hex floats), in stream order, links as stream positions.
inline std::string dump(const gr_face *face, const gr_font *font, gr_segment *seg, const std::vector<const gr_slot *> &sl, bool with_attrs = true) {
    std::map<const gr_slot *, int> pos;
    for (size_t i = 0; i < sl.size(); ++i) pos[sl[i]] = int(i);
    auto P = [&](const gr_slot *p) { if (!p) return -1; auto it = pos.find(p); return it == pos.end() ? -2 : it->second; };
    std::string s = "{\"n\":" + std::to_string(gr_seg_n_slots(seg)) + ",\"nc\":" + std::to_string(gr_seg_n_cinfo(seg)) + ",\"adv\":[";
    fl(s, gr_seg_advance_X(seg)); s += ","; fl(s, gr_seg_advance_Y(seg)); s += "],\"slots\":[";
    for (size_t i = 0; i < sl.size(); ++i) {
        const gr_slot *p = sl[i];
        if (i) s += ",";
        s += "{\"g\":" + std::to_string(gr_slot_gid(p)) + ",\"i\":" + std::to_string(gr_slot_index(p)) + ",\"o\":[";
        fl(s, gr_slot_origin_X(p)); s += ","; fl(s, gr_slot_origin_Y(p)); s += "],\"a\":[";
        fl(s, gr_slot_advance_X(p, face, font)); s += ","; fl(s, gr_slot_advance_Y(p, face, font)); s += "],\"a0\":[";
        // the face argument "may be NULL if unhinted advances [are] used" (Segment.h): same scaling expected
        fl(s, gr_slot_advance_X(p, nullptr, font)); s += ","; fl(s, gr_slot_advance_Y(p, nullptr, font)); s += "]";
        s += ",\"b\":" + std::to_string(gr_slot_before(p)) + ",\"f\":" + std::to_string(gr_slot_after(p)) + ",\"r\":" + std::to_string(gr_slot_original(p));
        s += ",\"p\":" + std::to_string(P(gr_slot_attached_to(p))) + ",\"c\":" + std::to_string(P(gr_slot_first_attachment(p))) + ",\"s\":" + std::to_string(P(gr_slot_next_sibling_attachment(p)));
        s += ",\"ins\":" + std::to_string(gr_slot_can_insert_before(p));
        if (with_attrs) {
            static const int codes[] = {gr_slatAdvX, gr_slatAdvY, gr_slatAttX, gr_slatAttY, gr_slatAttXOff, gr_slatAttYOff, gr_slatAttWithX, gr_slatAttWithY,
                                        gr_slatAttWithXOff, gr_slatAttWithYOff, gr_slatAttLevel, gr_slatBreak, gr_slatDir, gr_slatInsert, gr_slatPosX, gr_slatPosY,
                                        gr_slatShiftX, gr_slatShiftY, gr_slatMeasureSol, gr_slatMeasureEol, gr_slatJWidth, gr_slatSegSplit, gr_slatBidiLevel,
                                        gr_slatColFlags, gr_slatColShiftx, gr_slatColShifty};
            s += ",\"at\":[";
            for (size_t k = 0; k < sizeof codes / sizeof codes[0]; ++k) { if (k) s += ","; s += std::to_string(gr_slot_attr(p, seg, gr_attrCode(codes[k]), 0)); }
            s += "],\"u\":[";
            for (int k = 0; k < 8; ++k) { if (k) s += ","; s += std::to_string(gr_slot_attr(p, seg, gr_slatUserDefn, uint8_t(k))); }
            s += "]";
        }
        s += "}";
    }
    s += "],\"ci\":[";
    unsigned nc = gr_seg_n_cinfo(seg);
    for (unsigned i = 0; i < nc; ++i) {
        const gr_char_info *c = gr_seg_cinfo(seg, i);
        if (i) s += ",";
        s += "[" + std::to_string(gr_cinfo_unicode_char(c)) + "," + std::to_string(gr_cinfo_base(c)) + "," + std::to_string(gr_cinfo_before(c)) + "," +
             std::to_string(gr_cinfo_after(c)) + "," + std::to_string(gr_cinfo_break_weight(c)) + "]";
    }
    s += "]}";
    return s;
}

} // namespace seginv
