// Oracle for gr_count_unicode_characters (C11), derived from the property text and the header:
//  A  text before the first NUL well-formed (strict) and buffer tail not a truncated sequence
//       => exact count, *pError == NULL
//  B  text before the first NUL ill-formed (even leniently, i.e. not merely surrogate code points)
//       => an error is reported
//  C  any reported error => begin <= *pError < end and count <= number of well-formed characters
//       preceding the first ill-formed sequence
//  (surrogate code points encoded in UTF-8 / UTF-32 are *unspecified*: either outcome passes)
#pragma once
#include "utfref.h"

namespace utfjudge {

struct Scan {
    size_t nul;            // unit index of first NUL, or units if none
    bool strict_ok;        // text before NUL is well-formed per Unicode
    bool lenient_ok;       // ... when surrogate code points are tolerated
    size_t count_lenient;  // characters before the NUL when lenient_ok
    size_t good_prefix;    // lenient-well-formed characters before min(first NUL, first lenient-ill-formed sequence)
    bool tail_truncated;   // buffer ends in a proper prefix of a multi-unit sequence
};

inline Scan scan(int enc, const void *buf, size_t units) {
    Scan s{units, true, true, 0, 0, false};
    size_t i = 0;
    bool stopped = false;
    while (i < units) {
        uint32_t cp = 0; int l = 0; bool sur = false;
        if (enc == 1) { const uint8_t *p = static_cast<const uint8_t *>(buf); l = utfref::wf8(p + i, units - i, cp); if (!l && utfref::surrogate8(p + i, units - i)) { sur = true; l = 3; cp = 0xD800; } }
        else if (enc == 2) { l = utfref::wf16(static_cast<const uint16_t *>(buf) + i, units - i, cp); }
        else { uint32_t u = static_cast<const uint32_t *>(buf)[i]; if (u >= 0xD800 && u <= 0xDFFF) { sur = true; l = 1; cp = u; } else if (u <= 0x10FFFF) { l = 1; cp = u; } }
        if (l && !sur && cp == 0) { s.nul = i; stopped = true; break; }
        if (!l) { s.strict_ok = s.lenient_ok = false; break; }
        if (sur) s.strict_ok = false;
        ++s.good_prefix;
        i += size_t(l);
    }
    (void)stopped;
    // if we broke on an ill-formed sequence, the NUL position must still be found for clause A/B scoping
    if (!s.lenient_ok) {
        // is the ill-formed sequence before the first NUL?  scan raw units for a NUL before position i
        // (units before i were all well-formed non-NUL, so the first NUL, if any, is at or after i)
        // the text "before the first NUL" therefore contains the ill-formed sequence unless unit i itself is... never NUL (NUL is well-formed)
        s.nul = units;
        for (size_t k = i; k < units; ++k) {
            bool z = enc == 1 ? static_cast<const uint8_t *>(buf)[k] == 0 : enc == 2 ? static_cast<const uint16_t *>(buf)[k] == 0 : static_cast<const uint32_t *>(buf)[k] == 0;
            if (z) { s.nul = k; break; }
        }
    } else s.count_lenient = s.good_prefix;
    // truncated tail
    if (enc == 1 && units) {
        const uint8_t *p = static_cast<const uint8_t *>(buf);
        for (size_t k = 1; k <= 3 && k <= units; ++k) {
            uint8_t b = p[units - k];
            if (b >= 0xC0) { int want = b >= 0xF0 ? 4 : b >= 0xE0 ? 3 : 2; if (int(k) < want) s.tail_truncated = true; break; }
            if (b < 0x80) break;
        }
    } else if (enc == 2 && units) {
        uint16_t u = static_cast<const uint16_t *>(buf)[units - 1];
        if (u >= 0xD800 && u <= 0xDBFF) s.tail_truncated = true;
    }
    return s;
}

// bounded: buffer_end was given (else NULL end; then the text contains a NUL inside the buffer)
// err_off: unit offset of *pError, or -1 when *pError == NULL
inline const char *judge(int enc, const void *buf, size_t units, bool bounded, size_t count, long err_off) {
    Scan s = scan(enc, buf, units);
    bool err = err_off >= 0;
    if (err && size_t(err_off) >= units) return "pError-outside-buffer";
    if (err_off < -1) return "pError-outside-buffer";
    bool tail = bounded && s.tail_truncated;
    if (s.strict_ok && !tail) {
        if (err) return "error-on-well-formed-text";
        if (count != s.count_lenient) return "wrong-count-on-well-formed-text";
        return nullptr;
    }
    if (!s.lenient_ok && !err) return "no-error-on-ill-formed-text";
    if (err) {
        if (count > s.good_prefix) return "count-exceeds-well-formed-prefix";
        return nullptr;
    }
    // no error, and the text is lenient-only (surrogates) and/or the tail is truncated after a NUL
    if (s.lenient_ok && count != s.count_lenient) return "wrong-count";
    return nullptr;
}

} // namespace utfjudge
