// libFuzzer target: font loading on arbitrary table bytes (C01) with the borrow-discipline oracle (C16).
// Input = 16-byte case header + sfnt container.
#define DRV_DEFINE_HOOKS
#include "drv_common.h"
#include "face_report.h"
#include "fz_common.h"

static const size_t HDR = 16;

extern "C" size_t LLVMFuzzerCustomMutator(uint8_t *data, size_t size, size_t maxsize, unsigned int seed) {
    return fz::mutate(data, size, maxsize, seed, HDR);
}

static bool reported(const char *prop) {
    static const char *e = getenv("FZ_REPORT");
    if (!e || !*e) return true;
    return strstr(e, prop) != nullptr;
}

extern "C" int LLVMFuzzerTestOneInput(const uint8_t *data, size_t size) {
    fz::init_stats();
    fz::Stats &S = fz::stats();
    if (size < HDR + 4 || size > HDR + (1u << 20)) return 0;
    S.add("execs");
    const uint8_t *h = data;
    unsigned opts = h[0] & 7;
    int src = h[1] % 4 == 3 ? 1 : h[1] % 4 == 2 ? 2 : 0;
    const int src_arg = src | ((h[1] & 0x30) == 0x30 ? 8 : 0);        // 1 in 4: the deprecated *_with_seg_cache constructor of the same kind
    Exact fbuf(data + HDR, size - HDR);
    FaceBox fb;
    hooks().reset();
    make_face(fb, fbuf.p, fbuf.n, src_arg, opts);
    if (!fb.face) {
        S.add("face_rejected");
        char k[64]; snprintf(k, sizeof k, "reject_err%u_ctx%u", hooks().load_err, hooks().load_ctx & 0xFF);
        S.add(hooks().load_failed ? k : "reject_before_load");
        if (hooks().load_failed && hooks().load_err) { S.add("nontrivial_deep_reject"); S.nt.push_back(fz::fnv(data, size)); }
        if (fb.mf && src == 0) {
            if (fb.mf->outstanding()) { if (reported("C16")) fz::violate("C16", "tables-outstanding-after-failed-make_face"); else S.add("other_C16:outstanding"); }
            if (!fb.mf->errors.empty()) { if (reported("C16")) fz::violate("C16", "release-discipline:" + fb.mf->errors[0]); else S.add("other_C16:discipline"); }
        }
        return 0;
    }
    S.add("face_loaded");
    S.add("nontrivial_loaded");
    S.nt.push_back(fz::fnv(data, size));
    if (S.samples.size() < 2 && (S.c["face_loaded"] % 499) == 1) {
        char b[200]; snprintf(b, sizeof b, "{\"input_bytes\":%zu,\"opts\":%u,\"src\":%d,\"loaded\":1,\"n_glyphs\":%u,\"n_fref\":%u}", size, opts, src, gr_face_n_glyphs(fb.face), gr_face_n_fref(fb.face));
        S.samples.push_back(b);
    }
    if (fb.mf && (opts & gr_face_preloadAll) == gr_face_preloadAll) fb.mf->frozen = true;
    ReportOpts ro;
    ro.labels = true;
    ro.label_langs = {0x0409, uint16_t((h[4] << 8) | h[5])};
    ro.extra_langs = {fz::be32(h + 6), 0x20202020u, 0xFFFFFFFFu};
    ro.scripts = {0, fz::be32(h + 10)};
    for (uint32_t c : {0x20u, 0x41u, 0x61u, 0x1000u, 0x627u, 0xFFFFu, 0x10000u, 0x10FFFFu, 0x110000u, 0xFFFFFFFFu, uint32_t((h[14] << 8) | h[15])}) ro.chars.push_back(c);
    std::string rep = face_report(fb.face, ro);
    if (rep.find("CLONE_DIFFERS") != std::string::npos) { if (reported("C18")) fz::violate("C18", "clone-differs-from-source"); else S.add("other_C18:clone"); }
    // fonts too: creation and destruction must complete
    gr_font *f1 = gr_make_font(12.0f, fb.face);
    if (f1) gr_font_destroy(f1);
    fb.destroy();
    if (fb.mf && src == 0) {
        if (fb.mf->outstanding()) { if (reported("C16")) fz::violate("C16", "tables-outstanding-after-face_destroy"); else S.add("other_C16:outstanding"); }
        if (!fb.mf->errors.empty()) { if (reported("C16")) fz::violate("C16", "release-discipline:" + fb.mf->errors[0]); else S.add("other_C16:discipline"); }
        if (fb.mf->gets_after_freeze) { if (reported("C16")) fz::violate("C16", "get_table-after-preloadAll-construction"); else S.add("other_C16:after_freeze"); }
    }
    return 0;
}
