// Permissive reference LZ4 block decoder, written from the LZ4 block format description
// (token, literal length extension, literals, little-endian offset, match length extension, min match 4).
// It decodes as far as the stream is structurally decodable and reports why it stopped.
#pragma once
#include <cstdint>
#include <cstddef>
#include <vector>

namespace lz4ref {

enum Stop { END_OK, TRUNCATED, BAD_OFFSET, TOO_LONG };

inline Stop decode(const uint8_t *in, size_t n, std::vector<uint8_t> &out, size_t cap) {
    size_t i = 0;
    out.clear();
    if (n == 0) return TRUNCATED;
    for (;;) {
        if (i >= n) return TRUNCATED;
        uint8_t token = in[i++];
        size_t ll = token >> 4;
        if (ll == 15) { uint8_t b; do { if (i >= n) return TRUNCATED; b = in[i++]; ll += b; } while (b == 255); }
        if (ll > n - i) { out.insert(out.end(), in + i, in + n); return TRUNCATED; }
        if (out.size() + ll > cap) { out.insert(out.end(), in + i, in + i + (cap - out.size())); return TOO_LONG; }
        out.insert(out.end(), in + i, in + i + ll);
        i += ll;
        if (i == n) return END_OK;                       // a block ends after the literals of its last sequence
        if (n - i < 2) return TRUNCATED;
        size_t off = in[i] | (size_t(in[i + 1]) << 8);
        i += 2;
        size_t ml = token & 15;
        if (ml == 15) { uint8_t b; do { if (i >= n) return TRUNCATED; b = in[i++]; ml += b; } while (b == 255); }
        ml += 4;
        if (off == 0 || off > out.size()) return BAD_OFFSET;
        for (size_t k = 0; k < ml; ++k) {
            if (out.size() >= cap) return TOO_LONG;
            out.push_back(out[out.size() - off]);
        }
    }
}

} // namespace lz4ref
