// Shared pieces of the libFuzzer targets: table-aware custom mutator, run statistics written at exit
// (and before a trap), VIOLATE() reporting.
#pragma once
#include <cstdint>
#include <cstdio>
#include <cstdlib>
#include <cstring>
#include <map>
#include <string>
#include <vector>
#include <unistd.h>
#include <fcntl.h>

extern "C" size_t LLVMFuzzerMutate(uint8_t *Data, size_t Size, size_t MaxSize);

namespace fz {

// ---------------------------------------------------------------------------------------------
struct Stats {
    std::map<std::string, unsigned long> c;
    std::vector<std::string> samples;
    std::vector<uint64_t> nt;          // hashes of non-trivial cases (distinctness is established by the parent over all workers)
    bool dumped = false;
    void add(const char *k, unsigned long n = 1) { c[k] += n; }
    void dump() {
        const char *path = getenv("FZ_STATS");
        if (!path || (c.empty() && nt.empty())) return;
        std::string s = "{";
        bool first = true;
        for (auto &kv : c) { if (!first) s += ","; first = false; s += "\"" + kv.first + "\":" + std::to_string(kv.second); }
        s += ",\"samples\":[";
        for (size_t i = 0; i < samples.size(); ++i) { if (i) s += ","; s += samples[i]; }
        s += "],\"nt\":[";
        for (size_t i = 0; i < nt.size(); ++i) { char b[24]; snprintf(b, sizeof b, "%s\"%llx\"", i ? "," : "", (unsigned long long)nt[i]); s += b; }
        s += "]}\n";
        nt.clear(); samples.clear();
        int fd = open(path, O_WRONLY | O_CREAT | O_APPEND, 0644);
        if (fd >= 0) { (void)!write(fd, s.data(), s.size()); close(fd); }
        c.clear();
    }
};
inline uint64_t fnv(const uint8_t *d, size_t n) { uint64_t h = 1469598103934665603ull; for (size_t i = 0; i < n; ++i) { h ^= d[i]; h *= 1099511628211ull; } return h; }
inline Stats &stats() { static Stats *s = new Stats; return *s; }   // leaked on purpose: must outlive atexit handlers
inline void at_exit_dump() { stats().dump(); }
inline void init_stats() {
    static bool done = false; if (!done) { done = true; atexit(at_exit_dump); }
    // fork-mode children do not always leave through exit(): flush the counters every few thousand executions too
    static unsigned long n = 0; if (++n % 4000 == 0) stats().dump();
}

// labels listed in FZ_IGNORE (comma separated "Cxx:label") are counted, not reported: this is how confirmed
// known findings are excluded so that the campaign keeps searching behind them
inline bool ignored(const char *prop, const std::string &label) {
    static std::vector<std::string> ign;
    static bool init = false;
    if (!init) {
        init = true;
        const char *e = getenv("FZ_IGNORE");
        if (e) { std::string s(e); size_t i = 0; while (i < s.size()) { size_t j = s.find(',', i); if (j == std::string::npos) j = s.size(); ign.push_back(s.substr(i, j - i)); i = j + 1; } }
    }
    std::string k = std::string(prop) + ":" + label;
    for (auto &x : ign) if (x == k) return true;
    return false;
}

[[noreturn]] inline void violate(const char *prop, const std::string &label) {
    fprintf(stderr, "\nVIOLATE property=%s label=%s\n", prop, label.c_str());
    fflush(stderr);
    stats().add((std::string("violate_") + prop + ":" + label).c_str());
    stats().dump();
    __builtin_trap();
}

// ---------------------------------------------------------------------------------------------
// Table-aware mutator.  `hdr` = number of leading bytes that are the case header (mutated byte-wise).
inline uint32_t be32(const uint8_t *p) { return (uint32_t(p[0]) << 24) | (p[1] << 16) | (p[2] << 8) | p[3]; }
inline void wbe16(uint8_t *p, unsigned v) { p[0] = uint8_t(v >> 8); p[1] = uint8_t(v); }
inline void wbe32(uint8_t *p, uint32_t v) { p[0] = uint8_t(v >> 24); p[1] = uint8_t(v >> 16); p[2] = uint8_t(v >> 8); p[3] = uint8_t(v); }

struct Rng {
    uint64_t s;
    explicit Rng(unsigned seed) : s(seed * 0x9E3779B97F4A7C15ull + 0x632BE59BD9B4E019ull) {}
    uint64_t next() { s ^= s << 13; s ^= s >> 7; s ^= s << 17; return s; }
    unsigned operator()(unsigned n) { return n ? unsigned(next() % n) : 0; }
};

struct Tab { uint32_t tag; size_t off, len; int weight; };

inline int table_weight(uint32_t tag) {
    switch (tag) {
        case 0x53696C66: return 40;   // Silf
        case 0x476C6174: return 12;   // Glat
        case 0x476C6F63: return 8;    // Gloc
        case 0x46656174: return 6;    // Feat
        case 0x53696C6C: return 5;    // Sill
        case 0x636D6170: return 8;    // cmap
        case 0x6E616D65: return 4;    // name
        case 0x68686561: case 0x6D617870: case 0x68656164: return 2;   // hhea maxp head
        case 0x6C6F6361: case 0x686D7478: return 2;                    // loca hmtx
        case 0x676C7966: return 1;    // glyf
        default: return 0;
    }
}

inline size_t mutate(uint8_t *data, size_t size, size_t maxsize, unsigned seed, size_t hdr) {
    Rng r(seed);
    if (size < hdr + 12 || r(12) == 0)
        return LLVMFuzzerMutate(data, size, maxsize);            // sometimes: plain byte-level mutation of everything
    if (r(5) == 0) {                                             // header only
        size_t n = 1 + r(3);
        for (size_t i = 0; i < n; ++i) data[r(unsigned(hdr))] = uint8_t(r(4) ? r(256) : (r(2) ? 0 : 0xFF));
        return size;
    }
    uint8_t *f = data + hdr;
    size_t fs = size - hdr;
    unsigned nt = (f[4] << 8) | f[5];
    std::vector<Tab> tabs;
    int total = 0;
    if (nt <= 64 && 12 + 16 * size_t(nt) <= fs)
        for (unsigned i = 0; i < nt; ++i) {
            const uint8_t *e = f + 12 + 16 * i;
            size_t off = be32(e + 8), len = be32(e + 12);
            int w = table_weight(be32(e));
            if (off <= fs && len <= fs - off && len >= 4 && w) { tabs.push_back({be32(e), off, len, w}); total += w; }
        }
    if (tabs.empty())
        return LLVMFuzzerMutate(data, size, maxsize);
    int pick = int(r(unsigned(total)));
    Tab t = tabs[0];
    for (auto &x : tabs) { if (pick < x.weight) { t = x; break; } pick -= x.weight; }
    uint8_t *tp = f + t.off;
    unsigned how = r(100);
    if (how < 30) {                                              // libFuzzer's own mutations on a window inside the table (size preserved)
        size_t wl = 1 + r(unsigned(t.len < 64 ? t.len : 64));
        size_t wo = r(unsigned(t.len - wl + 1));
        std::vector<uint8_t> w(tp + wo, tp + wo + wl);
        w.resize(wl + 8);
        size_t nl = LLVMFuzzerMutate(w.data(), wl, wl);          // MaxSize == wl keeps the length
        if (nl > wl) nl = wl;
        memcpy(tp + wo, w.data(), nl);
        return size;
    }
    static const uint16_t B16[] = {0, 1, 2, 3, 0x7F, 0x80, 0xFF, 0x100, 0x7FFF, 0x8000, 0xFFFE, 0xFFFF};
    if (how < 55 && t.len >= 2) {                                // 16-bit big-endian field := boundary value or +-1
        size_t o = r(unsigned(t.len - 1)) & ~size_t(r(4) ? 1 : 0);
        unsigned cur = (tp[o] << 8) | tp[o + 1];
        unsigned v = r(3) == 0 ? (cur + (r(2) ? 1 : 0xFFFF)) & 0xFFFF : r(3) == 0 ? unsigned(t.len + r(5)) - 2 : B16[r(12)];
        wbe16(tp + o, v);
        return size;
    }
    if (how < 65 && t.len >= 4) {                                // 32-bit field (offsets): boundary or near table length
        size_t o = r(unsigned(t.len - 3)) & ~size_t(3);
        uint32_t cur = be32(tp + o);
        uint32_t v = r(3) == 0 ? cur + (r(2) ? 1 : 0xFFFFFFFFu) : r(2) ? uint32_t(t.len + r(9)) - 4 : (r(2) ? 0 : 0xFFFFFFFFu);
        wbe32(tp + o, v);
        return size;
    }
    if (how < 85) {                                              // single byte: +-1, bit flip, or random (opcode / operand edits)
        size_t o = r(unsigned(t.len));
        unsigned k = r(4);
        tp[o] = uint8_t(k == 0 ? tp[o] + 1 : k == 1 ? tp[o] - 1 : k == 2 ? tp[o] ^ (1u << r(8)) : r(0x43));
        return size;
    }
    if (how >= 85 && how < 89 && t.len >= 8) {                   // coordinated pair: two nearby 16-bit fields moved together (sum- or difference-
        size_t o = r(unsigned(t.len - 7)) & ~size_t(1);          // preserving), e.g. numIDs / rangeShift of a lookup class or cmap search header
        size_t o2 = o + 2 * (1 + r(3));
        unsigned d = r(2) ? 1 + r(4) : B16[r(12)];
        unsigned a = (tp[o] << 8) | tp[o + 1], b = (tp[o2] << 8) | tp[o2 + 1];
        wbe16(tp + o, (a + d) & 0xFFFF);
        wbe16(tp + o2, (r(2) ? b + d : b - d) & 0xFFFF);
        return size;
    }
    if (how < 92 && t.len >= 4) {                                // swap two bytes / copy a run inside the table
        size_t a = r(unsigned(t.len)), b = r(unsigned(t.len));
        if (r(2)) { uint8_t x = tp[a]; tp[a] = tp[b]; tp[b] = x; }
        else { size_t n = 1 + r(8); if (a + n <= t.len && b + n <= t.len) memmove(tp + a, tp + b, n); }
        return size;
    }
    // truncate / extend the table by editing its directory length (data stays in place)
    for (unsigned i = 0; i < nt; ++i) {
        uint8_t *e = f + 12 + 16 * i;
        if (be32(e) == t.tag) {
            long nl = long(t.len) + (long(r(9)) - 4);
            if (nl < 0) nl = 0;
            if (size_t(nl) > fs - t.off) nl = long(fs - t.off);
            wbe32(e + 12, uint32_t(nl));
            break;
        }
    }
    return size;
}

} // namespace fz
