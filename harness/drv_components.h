// Component-level commands of grdrv (internal headers of /repo/src): cmap sweep, vm, lz4, zones, colliders.
#pragma once
#include "drv_common.h"
#include "cmap_sweep.h"

// 'M' u32 fontid u32 only(0xFFFFFFFE = all)  -> sweep summary
inline std::string cmd_cmap(Reader &rd, std::map<uint32_t, std::vector<uint8_t>> &fonts) {
    uint32_t fid = rd.u32();
    uint32_t only = rd.u32();
    auto it = fonts.find(fid);
    if (rd.bad || it == fonts.end()) return "{\"error\":\"bad cmap request\"}";
    CmapSweep sw;
    sweep_font(it->second, sw, [](uint32_t) {}, only);
    return sw.json();
}

inline std::string dispatch_components(uint8_t cmd, Reader &rd, std::map<uint32_t, std::vector<uint8_t>> &fonts) {
    if (cmd == 'M') return cmd_cmap(rd, fonts);
    return "";
}
