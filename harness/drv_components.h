// Component-level commands of grdrv (internal headers of /repo/src): vm, zones, colliders, cmap, lz4.
#pragma once
#include "drv_common.h"
inline std::string dispatch_components(uint8_t cmd, Reader &rd, std::map<uint32_t, std::vector<uint8_t>> &fonts) { (void)cmd; (void)rd; (void)fonts; return ""; }
