// Component-level commands of grdrv (internal headers of /repo/src): cmap sweep, vm, lz4, zones, colliders.
#pragma once
#include "drv_common.h"
#include "cmap_sweep.h"
#include "lz4ref.h"
#include "inc/Decompressor.h"

// 'M' u32 fontid u32 only(0xFFFFFFFE = all)  -> sweep summary
inline std::string cmd_cmap(Reader &rd, std::map<uint32_t, std::vector<uint8_t>> &fonts) {
    uint32_t fid = rd.u32();
    uint32_t only = rd.u32();
    auto it = fonts.find(fid);
    if (rd.bad || it == fonts.end()) return "{\"error\":\"bad cmap request\"}";
    CmapSweep sw;
    sweep_font(it->second, sw, [](uint32_t) {}, only);
    return sw.json();
}

// 'L' u32 out_size, bytes in -> {"r":.., "out":hex (first max(r,0) bytes), "canary":1 if bytes after out_size untouched}
// Input and output live in exact-size heap blocks: a read outside the input or a write outside the announced
// output size is an ASan report.
inline std::string cmd_lz4(Reader &rd) {
    uint32_t out_size = rd.u32();
    std::vector<uint8_t> in = rd.bytes();
    if (rd.bad || out_size > (64u << 20)) return "{\"error\":\"bad lz4 request\"}";
    Exact ib(in);
    uint8_t *ob = static_cast<uint8_t *>(malloc(out_size ? out_size : 1));
    memset(ob, 0xA5, out_size ? out_size : 1);
    int r = lz4::decompress(ib.p, ib.n, ob, out_size);
    std::string s = "{\"r\":" + std::to_string(r);
    if (r > 0 && size_t(r) <= out_size) s += ",\"out\":" + jhex(ob, size_t(r));
    s += "}";
    free(ob);
    return s;
}

inline std::string dispatch_components(uint8_t cmd, Reader &rd, std::map<uint32_t, std::vector<uint8_t>> &fonts) {
    if (cmd == 'M') return cmd_cmap(rd, fonts);
    if (cmd == 'L') return cmd_lz4(rd);
    return "";
}
