// Component-level commands of grdrv (internal headers of /repo/src): cmap sweep, vm, lz4, zones, colliders.
#pragma once
#include "drv_common.h"
#include "cmap_sweep.h"
#include "lz4ref.h"
#include "inc/Decompressor.h"
#include "inc/Code.h"
#include "inc/Rule.h"
#include "inc/Segment.h"
#include "inc/Machine.h"

// 'M' u32 fontid u32 only(0xFFFFFFFE = all)  -> sweep summary
inline std::string cmd_cmap(Reader &rd, std::map<uint32_t, std::vector<uint8_t>> &fonts) {
    uint32_t fid = rd.u32();
    uint32_t only = rd.u32();
    auto it = fonts.find(fid);
    if (rd.bad || it == fonts.end()) return "{\"error\":\"bad cmap request\"}";
    CmapSweep sw;
    sweep_font(it->second, sw, [](uint32_t) {}, only);
    return sw.json();
}

// 'L' u32 out_size, bytes in -> {"r":.., "out":hex (first max(r,0) bytes), "canary":1 if bytes after out_size untouched}
// Input and output live in exact-size heap blocks: a read outside the input or a write outside the announced
// output size is an ASan report.
inline std::string cmd_lz4(Reader &rd) {
    uint32_t out_size = rd.u32();
    std::vector<uint8_t> in = rd.bytes();
    if (rd.bad || out_size > (64u << 20)) return "{\"error\":\"bad lz4 request\"}";
    Exact ib(in);
    uint8_t *ob = static_cast<uint8_t *>(malloc(out_size ? out_size : 1));
    memset(ob, 0xA5, out_size ? out_size : 1);
    int r = lz4::decompress(ib.p, ib.n, ob, out_size);
    std::string s = "{\"r\":" + std::to_string(r);
    if (r > 0 && size_t(r) <= out_size) s += ",\"out\":" + jhex(ob, size_t(r));
    s += "}";
    free(ob);
    return s;
}

// 'V' u32 fontid, u8 is_constraint, bytes program -> {"loaded":code status, "ret":.., "status":machine status}
// The program is loaded by the real bytecode loader (Machine::Code) and run by the real interpreter of this
// build on a one-slot slot map, as tests/vm does.  opcode_name reports the name column of the opcode table.
inline std::string cmd_vm(Reader &rd, std::map<uint32_t, std::vector<uint8_t>> &fonts) {
    using namespace graphite2; using namespace graphite2::vm;
    uint32_t fid = rd.u32();
    bool cons = rd.u8() != 0;
    std::vector<uint8_t> prog = rd.bytes();
    auto it = fonts.find(fid);
    if (rd.bad || it == fonts.end() || prog.empty()) return "{\"error\":\"bad vm request\"}";
    static std::map<uint32_t, std::pair<std::unique_ptr<Exact>, std::unique_ptr<FaceBox>>> faces;
    auto &slot = faces[fid];
    if (!slot.second) {
        slot.first.reset(new Exact(it->second));
        slot.second.reset(new FaceBox);
        make_face(*slot.second, slot.first->p, slot.first->n, 0, 0);
    }
    gr_face *face = slot.second->face;
    if (!face) return "{\"error\":\"vm face did not load\"}";
    const uint32_t txt[1] = {0x61};
    gr_segment *seg = gr_make_seg(nullptr, face, 0, nullptr, gr_utf32, txt, 1, 0);
    if (!seg || !seg->first()) { if (seg) gr_seg_destroy(seg); return "{\"error\":\"vm segment\"}"; }
    std::string out;
    {
        Exact pb(prog);
        Silf silf;
        Machine::Code code(cons, pb.p, pb.p + pb.n, 0, 1, silf, *face, PASS_TYPE_UNKNOWN);
        if (!code) out = "{\"loaded\":" + std::to_string(int(code.status())) + ",\"ok\":0}";
        else {
            SlotMap smap(*seg, 0, 0);
            Machine m(smap);
            smap.pushSlot(seg->first());
            slotref *map = smap.begin();
            int32 r = code.run(m, map);
            out = "{\"loaded\":" + std::to_string(int(code.status())) + ",\"ok\":1,\"ret\":" + std::to_string(r) + ",\"status\":" + std::to_string(int(m.status())) + "}";
        }
    }
    gr_seg_destroy(seg);
    return out;
}

// 'O' -> names of the opcode table in on-disk order (cross-check of "table index == opcode number")
inline std::string cmd_opnames() {
    using namespace graphite2::vm;
    const opcode_t *t = Machine::getOpcodeTable();
    std::string s = "[";
    for (int i = 0; i < int(MAX_OPCODE); ++i) { if (i) s += ","; s += jstr(t[i].name); }
    return s + "]";
}

inline std::string dispatch_components(uint8_t cmd, Reader &rd, std::map<uint32_t, std::vector<uint8_t>> &fonts) {
    if (cmd == 'M') return cmd_cmap(rd, fonts);
    if (cmd == 'L') return cmd_lz4(rd);
    if (cmd == 'V') return cmd_vm(rd, fonts);
    if (cmd == 'O') return cmd_opnames();
    return "";
}
