// C17 (collision fixing): generated arrangements of a target glyph and up to 6 neighbours drawn from the
// octabox-bearing glyphs of an Awami font, run through the real ShiftCollider / KernCollider
// (initSlot, mergeSlot for every neighbour, resolve) on a real segment whose slot origins, collision
// limits, margins, shifts, offsets and flags are overwritten with generated values.
//   pbt_coll run <font> <seed> <ncases> <dir>       dir: 1 = right-to-left run, 0 = left-to-right
//   pbt_coll replay <font> <seed> <case> <dir> [mask]   mask: bitmask of neighbours to keep
// Oracle (independent of the collider):
//   (a) limit:    limit.bl <= offset + shift <= limit.tr   (tolerance 0.01 + 1e-5|v|)
//   (b) resolved: when resolve() leaves isCol == false, the target octabox at its shifted position has no overlap deeper
//       than 0.02 units (on all of the x, y, x+y, x-y axes) with the octabox or any sub-octabox of a merged neighbour that is
//       within reach of the limit rectangle (the engine's documented short-circuit).
//   KernCollider: limit.bl.x <= offsetPrev.x + kern <= limit.tr.x.
#include "inc/Segment.h"
#include "inc/Collider.h"
#include "inc/GlyphCache.h"
#include "inc/Face.h"
#include <graphite2/Segment.h>
#include "enum_common.h"
#include <algorithm>
#include <cmath>

using namespace graphite2;

struct Rng { uint64_t s; explicit Rng(uint64_t x) : s(x * 0x9E3779B97F4A7C15ull + 0x2545F4914F6CDD1Dull) { next(); next(); }
    uint64_t next() { s ^= s << 13; s ^= s >> 7; s ^= s << 17; return s; } unsigned operator()(unsigned n) { return unsigned(next() % n); }
    float fr(float a, float b) { return a + (b - a) * float((*this)(10001)) / 10000.f; } };

struct Oct { float xi, xa, yi, ya, si, sa, di, da; };
static Oct mk(const BBox &b, const SlantBox &s, float x, float y) { return {x + b.xi, x + b.xa, y + b.yi, y + b.ya, x + y + s.si, x + y + s.sa, x - y + s.di, x - y + s.da}; }
static float depth(const Oct &a, const Oct &b) {
    float dx = std::min(a.xa, b.xa) - std::max(a.xi, b.xi), dy = std::min(a.ya, b.ya) - std::max(a.yi, b.yi),
          ds = std::min(a.sa, b.sa) - std::max(a.si, b.si), dd = std::min(a.da, b.da) - std::max(a.di, b.di);
    return std::min(std::min(dx, dy), std::min(ds, dd));
}

struct Nbr { int slot; float x, y; bool after; };
struct Arr { int target; std::vector<Nbr> nb; Rect limit; Position off, sh; float margin, mw; int cls; };   // cls: 0 gating, 1 ltr-asymmetric (outside the quantifier), 2 zero-extent limit (gating), 3 LTR with a non-zero accumulated x offset (known finding KF3)

static Arr gen(uint64_t seed, unsigned long idx, size_t nslots, int dir) {
    Rng r(seed * 1000003ull + idx);
    Arr a;
    a.target = int(r(unsigned(nslots)));
    int k = 1 + int(r(6));
    for (size_t i = 0; i < nslots && int(a.nb.size()) < k; ++i)
        if (int(i) != a.target && r(2)) a.nb.push_back({int(i), 1000 + std::round(r.fr(-500, 500)), 500 + std::round(r.fr(-400, 400)), bool(r(2))});
    float lx = r.fr(20, 400), ly = r.fr(20, 400);
    a.limit = Rect(Position(-lx, -ly), Position(lx, ly));
    a.cls = 0;
    unsigned how = r(10);
    if (how < 3) {
        a.limit = Rect(Position(-std::round(r.fr(0, 300)), -std::round(r.fr(0, 300))), Position(std::round(r.fr(0, 300)), std::round(r.fr(0, 300))));
        if (dir == 0) { if (r(4)) a.limit.bl.x = -a.limit.tr.x; else a.cls = 1; }
    } else if (how == 3) {
        if (r(2)) a.limit.bl.x = a.limit.tr.x = 0; else a.limit.bl.y = a.limit.tr.y = 0;
    }
    if (a.limit.bl.x == a.limit.tr.x || a.limit.bl.y == a.limit.tr.y) a.cls = 2;
    Position zero(0, 0);
    a.off = r(3) ? zero : Position(std::round(r.fr(a.limit.bl.x, a.limit.tr.x) * 0.5f), std::round(r.fr(a.limit.bl.y, a.limit.tr.y) * 0.5f));
    if ((a.off.x != 0 || a.off.y != 0) && r(3) == 0) { if (r(2)) a.off.x = 0; else a.off.y = 0; }      // the usual result of an earlier x-only / y-only fix
    a.sh = r(3) ? zero : Position(std::round(r.fr(a.limit.bl.x - a.off.x, a.limit.tr.x - a.off.x) * 0.5f), std::round(r.fr(a.limit.bl.y - a.off.y, a.limit.tr.y - a.off.y) * 0.5f));
    a.margin = float(r(30)); a.mw = float(r(10));
    if (dir == 0 && a.cls != 1 && a.off.x != 0) a.cls = 3;
    return a;
}

struct Outcome { const char *label = nullptr; bool resolved = false, pre = false, moved = false, collides = false, init_ok = true; int reach = 0; float d = 0; };

static Outcome run_shift(Segment *seg, const GlyphCache &gc, const std::vector<Slot *> &sl, const Arr &a, int dir, unsigned mask) {
    Outcome o;
    Slot *T = sl[a.target];
    Position zero(0, 0);
    { Position want = Position(1000, 500) + a.off; T->positionShift(want - T->origin()); }
    SlotCollision *cT = seg->collisionInfo(T);
    cT->setLimit(a.limit); cT->setMargin(uint16(a.margin)); cT->setMarginWt(uint16(a.mw)); cT->setShift(a.sh); cT->setOffset(a.off); cT->setFlags(SlotCollision::COLL_FIX);
    cT->setSeqClass(0); cT->setSeqProxClass(0); cT->setSeqOrder(0); cT->setExclGlyph(0);
    std::vector<const Nbr *> N;
    for (size_t i = 0; i < a.nb.size(); ++i) if (mask & (1u << i)) N.push_back(&a.nb[i]);
    for (auto n : N) {
        Slot *s = sl[n->slot];
        s->positionShift(Position(n->x, n->y) - s->origin());
        SlotCollision *c = seg->collisionInfo(s);
        c->setShift(zero); c->setFlags(0); c->setExclGlyph(0); c->setSeqClass(0);
    }
    ShiftCollider coll(0);
    bool collides = false;
    if (!coll.initSlot(seg, T, cT->limit(), cT->margin(), cT->marginWt(), cT->shift(), cT->offset(), dir, 0)) { o.init_ok = false; return o; }
    for (auto n : N) { SlotCollision *c = seg->collisionInfo(sl[n->slot]); coll.mergeSlot(seg, sl[n->slot], c, c->shift(), n->after, false, collides, false, 0); }
    o.collides = collides;
    const BBox &tbb = gc.getBoundingBBox(T->gid()); const SlantBox &tsb = gc.getBoundingSlantBox(T->gid());
    { Oct t0 = mk(tbb, tsb, T->origin().x + a.sh.x, T->origin().y + a.sh.y);
      for (auto n : N) { Slot *s = sl[n->slot]; if (depth(t0, mk(gc.getBoundingBBox(s->gid()), gc.getBoundingSlantBox(s->gid()), s->origin().x, s->origin().y)) > 0.02f) o.pre = true; } }
    if (!(collides || a.sh.x != 0 || a.sh.y != 0)) return o;         // the pass would not call resolve
    bool isCol = false;
    Position ns = coll.resolve(seg, isCol, 0);
    o.resolved = !isCol;
    o.moved = ns.x != a.sh.x || ns.y != a.sh.y;
    if (!std::isfinite(ns.x) || !std::isfinite(ns.y)) { o.label = "shift-not-finite"; return o; }
    if (isCol) return o;
    Position tot = a.off + ns;
    float tolx = 0.01f + 1e-5f * std::fabs(tot.x), toly = 0.01f + 1e-5f * std::fabs(tot.y);
    if (tot.x < a.limit.bl.x - tolx || tot.x > a.limit.tr.x + tolx || tot.y < a.limit.bl.y - toly || tot.y > a.limit.tr.y + toly) { o.label = "offset-plus-shift-outside-limit"; return o; }
    Oct t1 = mk(tbb, tsb, T->origin().x + ns.x, T->origin().y + ns.y);
    for (auto n : N) {
        Slot *s = sl[n->slot];
        float sx = s->origin().x - (T->origin().x - a.off.x), sy = s->origin().y - (T->origin().y - a.off.y);
        const BBox &bb = gc.getBoundingBBox(s->gid());
        Rect L(a.limit.bl - a.off, a.limit.tr - a.off);
        bool reach = (sx + bb.xa + a.margin >= L.bl.x && sx + bb.xi - a.margin <= L.tr.x) || (sy + bb.ya + a.margin >= L.bl.y && sy + bb.yi - a.margin <= L.tr.y);
        if (!reach) continue;
        ++o.reach;
        int nsub = gc.numSubBounds(s->gid());
        float d;
        if (nsub == 0) d = depth(t1, mk(bb, gc.getBoundingSlantBox(s->gid()), s->origin().x, s->origin().y));
        else { d = -1e9f; for (int j = 0; j < nsub; ++j) d = std::max(d, depth(t1, mk(gc.getSubBoundingBBox(s->gid(), j), gc.getSubBoundingSlantBox(s->gid(), j), s->origin().x, s->origin().y))); }
        if (d > 0.02f) { o.label = "resolved-but-octaboxes-overlap"; o.d = d; return o; }
    }
    return o;
}

static const char *run_kern(Segment *seg, const std::vector<Slot *> &sl, const Arr &a, int dir, unsigned mask, bool *hit) {
    Slot *T = sl[a.target];
    Position zero(0, 0);
    { Position want = Position(1000, 500); T->positionShift(want - T->origin()); }
    SlotCollision *cT = seg->collisionInfo(T);
    Rect lim = a.limit;
    cT->setLimit(lim); cT->setMargin(uint16(a.margin)); cT->setShift(zero); cT->setOffset(a.off); cT->setFlags(SlotCollision::COLL_KERN | SlotCollision::COLL_FIX);
    KernCollider kc(0);
    float ymin = 500 - 2000, ymax = 500 + 2000;
    if (!kc.initSlot(seg, T, lim, a.margin, zero, a.off, dir, ymin, ymax, 0)) return nullptr;
    bool any = false;
    for (size_t i = 0; i < a.nb.size(); ++i) if (mask & (1u << i)) {
        Slot *s = sl[a.nb[i].slot];
        s->positionShift(Position(a.nb[i].x, a.nb[i].y) - s->origin());
        any |= kc.mergeSlot(seg, s, zero, 0, dir, 0);
    }
    if (hit) *hit = any;
    Position k = kc.resolve(seg, T, dir, 0);
    if (!std::isfinite(k.x) || !std::isfinite(k.y)) return "kern-not-finite";
    float tot = a.off.x + k.x, tol = 0.01f + 1e-5f * std::fabs(tot);
    if (tot < lim.bl.x - tol || tot > lim.tr.x + tol) return "kern-outside-limit";
    return nullptr;
}

static std::string arr_json(const char *kind, const char *font, uint64_t seed, unsigned long idx, int dir, const Arr &a, unsigned mask, const std::vector<Slot *> &sl) {
    char b[400];
    snprintf(b, sizeof b, "{\"kind\":\"%s\",\"font\":\"%s\",\"seed\":%llu,\"case\":%lu,\"dir\":%d,\"mask\":%u,\"target_gid\":%u,\"limit\":[%g,%g,%g,%g],\"offset\":[%g,%g],\"shift\":[%g,%g],\"margin\":%g,\"class\":%d,\"neighbours\":[",
             kind, font, (unsigned long long)seed, idx, dir, mask, sl[a.target]->gid(), a.limit.bl.x, a.limit.bl.y, a.limit.tr.x, a.limit.tr.y, a.off.x, a.off.y, a.sh.x, a.sh.y, a.margin, a.cls);
    std::string s = b;
    bool first = true;
    for (size_t i = 0; i < a.nb.size(); ++i) if (mask & (1u << i)) { snprintf(b, sizeof b, "%s[%u,%g,%g,%d]", first ? "" : ",", sl[a.nb[i].slot]->gid(), a.nb[i].x, a.nb[i].y, int(a.nb[i].after)); s += b; first = false; }
    return s + "]}";
}

int main(int argc, char **argv) {
    if (argc < 6) return 3;
    std::string mode = argv[1];
    const char *fontpath = argv[2];
    uint64_t seed = strtoull(argv[3], nullptr, 10);
    unsigned long n = strtoul(argv[4], nullptr, 10);
    int dir = atoi(argv[5]);
    gr_face *face = gr_make_file_face(fontpath, 0);
    if (!face) { printf("{\"error\":\"font did not load\"}\n"); return 0; }
    static const uint32_t text[] = {0x0628, 0x067E, 0x062A, 0x062B, 0x0646, 0x06CC, 0x0634, 0x0642, 0x0641, 0x062C, 0x0686, 0x062E, 0x0639, 0x0645, 0x0647, 0x06C1, 0x0644, 0x0627};
    gr_segment *gseg = gr_make_seg(0, face, 0, 0, gr_utf32, text, sizeof text / sizeof text[0], dir);
    if (!gseg) { printf("{\"error\":\"no segment\"}\n"); return 0; }
    Segment *seg = gseg;
    const GlyphCache &gc = face->glyphs();
    std::vector<Slot *> sl;
    for (Slot *p = seg->first(); p; p = p->next()) if (gc.check(p->gid()) && seg->collisionInfo(p)) sl.push_back(p);
    if (sl.size() < 4) { printf("{\"error\":\"font has fewer than 4 octabox slots\"}\n"); return 0; }
    const char *fname = strrchr(fontpath, '/'); fname = fname ? fname + 1 : fontpath;
    // every case starts from the same pristine slot / collision state (bitwise snapshot), so that a case is a pure
    // function of (font, seed, index, dir, mask) and replays exactly
    std::vector<std::vector<unsigned char>> snap_slot, snap_coll;
    for (Slot *p : sl) {
        snap_slot.emplace_back(reinterpret_cast<unsigned char *>(p), reinterpret_cast<unsigned char *>(p) + sizeof(Slot));
        SlotCollision *c = seg->collisionInfo(p);
        snap_coll.emplace_back(reinterpret_cast<unsigned char *>(c), reinterpret_cast<unsigned char *>(c) + sizeof(SlotCollision));
    }
    auto restore = [&]() {
        for (size_t i = 0; i < sl.size(); ++i) {
            memcpy(static_cast<void *>(sl[i]), snap_slot[i].data(), sizeof(Slot));
            memcpy(static_cast<void *>(seg->collisionInfo(sl[i])), snap_coll[i].data(), sizeof(SlotCollision));
        }
    };
    if (mode == "replay") {
        unsigned mask = argc > 6 ? unsigned(strtoul(argv[6], nullptr, 10)) : 0xFFu;
        bool kern = argc > 7;
        Arr a = gen(seed, n, sl.size(), dir);
        restore();
        const char *l = kern ? run_kern(seg, sl, a, dir, mask, nullptr) : run_shift(seg, gc, sl, a, dir, mask).label;
        printf("{\"label\":%s%s%s,\"class\":%d}\n", l ? "\"" : "", l ? l : "null", l ? "\"" : "", a.cls);
        gr_seg_destroy(gseg);
        gr_face_destroy(face);
        return 0;
    }
    unsigned long evals = 0, resolved = 0, unresolved = 0, pre = 0, nontrivial = 0, reach = 0, nocall = 0, cls[4] = {0, 0, 0, 0}, kern_evals = 0, kern_hit = 0;
    std::map<std::string, std::pair<unsigned long, std::string>> fails, nongating, known;
    std::string sample;
    for (unsigned long i = 0; i < n; ++i) {
        Arr a = gen(seed, i, sl.size(), dir);
        if (a.nb.empty()) continue;
        unsigned full = (1u << a.nb.size()) - 1;
        restore();
        Outcome o = run_shift(seg, gc, sl, a, dir, full);
        ++evals; ++cls[a.cls];
        if (o.resolved) ++resolved; else if (o.collides || a.sh.x != 0 || a.sh.y != 0) ++unresolved; else ++nocall;
        if (o.pre) ++pre;
        reach += o.reach;
        if (o.pre && o.moved && o.resolved) { ++nontrivial; if (sample.empty() && i > 20) sample = arr_json("shift", fname, seed, i, dir, a, full, sl); }
        if (o.label) {
            auto &tbl = a.cls == 1 ? nongating : (a.cls == 3 && !strcmp(o.label, "resolved-but-octaboxes-overlap")) ? known : fails;
            std::string key = std::string(o.label) + (a.cls == 2 ? ":zero-extent-limit" : "");
            auto &e = tbl[key];
            if (!e.first++) {
                unsigned mask = full;                                  // shrink: drop neighbours while the label persists
                for (size_t k = 0; k < a.nb.size(); ++k) { unsigned m2 = mask & ~(1u << k); if (m2) { restore(); Outcome o2 = run_shift(seg, gc, sl, a, dir, m2); if (o2.label && !strcmp(o2.label, o.label)) mask = m2; } }
                e.second = arr_json("shift", fname, seed, i, dir, a, mask, sl);
            }
        }
        bool hit = false;
        restore();
        const char *kl = run_kern(seg, sl, a, dir, full, &hit);
        ++kern_evals; if (hit) ++kern_hit;
        if (kl) { auto &e = fails[kl]; if (!e.first++) e.second = arr_json("kern", fname, seed, i, dir, a, full, sl); }
    }
    auto tj = [](const std::map<std::string, std::pair<unsigned long, std::string>> &m) {
        std::string fj = "{"; bool first = true;
        for (auto &kv : m) { if (!first) fj += ","; first = false; fj += "\"" + kv.first + "\":{\"count\":" + std::to_string(kv.second.first) + ",\"first\":" + kv.second.second + "}"; }
        return fj + "}"; };
    printf("{\"evaluations\":%lu,\"octabox_slots\":%zu,\"resolved\":%lu,\"unresolved\":%lu,\"not_called\":%lu,\"overlapping_before\":%lu,\"nontrivial\":%lu,\"neighbours_in_reach\":%lu,\"class_gating\":%lu,\"class_ltr_asym\":%lu,"
           "\"class_zero_extent\":%lu,\"class_ltr_offset_KF3\":%lu,\"kern_evaluations\":%lu,\"kern_hits\":%lu,\"sample\":%s,\"fails\":%s,\"nongating\":%s,\"known_KF3\":%s}\n",
           evals, sl.size(), resolved, unresolved, nocall, pre, nontrivial, reach, cls[0], cls[1], cls[2], cls[3], kern_evals, kern_hit, sample.empty() ? "null" : sample.c_str(), tj(fails).c_str(), tj(nongating).c_str(), tj(known).c_str());
    gr_seg_destroy(gseg);
    gr_face_destroy(face);
    return 0;
}
