// Instrumented table source for gr_make_face_with_ops.
//  * every table handed to the library is an exact-size heap copy, so a one byte over-read is an
//    ASan report;
//  * a borrow ledger records every pointer handed out and every release: double release, release of
//    an unknown pointer, get_table after the "frozen" mark (preloadAll) and outstanding borrows at
//    face destruction are counted as discipline errors (C16);
//  * on release the copy is freed, so any later dereference is an ASan use-after-free.
#pragma once
#include <graphite2/Font.h>
#include <cstdint>
#include <cstdlib>
#include <cstring>
#include <map>
#include <string>
#include <vector>

struct MemFace {
    const uint8_t *d = nullptr;
    size_t n = 0;
    bool own_copy = true;           // hand out exact-size copies (else pointers into d)
    // ledger
    std::map<const void *, uint32_t> out;   // outstanding pointer -> tag
    unsigned long gets = 0, releases = 0, null_gets = 0;
    unsigned long gets_after_freeze = 0;
    bool frozen = false;
    std::vector<std::string> errors;        // discipline errors, in words
    std::vector<uint32_t> get_log;          // tags requested, in order (bounded)

    MemFace(const uint8_t *data, size_t size) : d(data), n(size) {}

    static uint32_t be32(const uint8_t *p) { return (uint32_t(p[0]) << 24) | (p[1] << 16) | (p[2] << 8) | p[3]; }

    bool find(uint32_t name, size_t &off, size_t &len) const {
        if (n < 12) return false;
        unsigned nt = (d[4] << 8) | d[5];
        if (nt > 64 || 12 + 16 * size_t(nt) > n) return false;
        for (unsigned i = 0; i < nt; ++i) {
            const uint8_t *e = d + 12 + 16 * i;
            if (be32(e) == name) {
                off = be32(e + 8); len = be32(e + 12);
                if (off > n || len > n - off) return false;
                return true;
            }
        }
        return false;
    }

    static const void *get_table(const void *h, unsigned int name, size_t *len) {
        MemFace &m = *const_cast<MemFace *>(static_cast<const MemFace *>(h));
        ++m.gets;
        if (m.frozen) ++m.gets_after_freeze;
        if (m.get_log.size() < 256) m.get_log.push_back(name);
        size_t off, l;
        if (!m.find(name, off, l)) { ++m.null_gets; return nullptr; }
        void *p;
        if (m.own_copy) { p = malloc(l ? l : 1); if (l) memcpy(p, m.d + off, l); }
        else p = const_cast<uint8_t *>(m.d + off);
        if (len) *len = l;
        if (m.own_copy) m.out[p] = name;
        return p;
    }
    static void release_table(const void *h, const void *p) {
        MemFace &m = *const_cast<MemFace *>(static_cast<const MemFace *>(h));
        ++m.releases;
        if (!m.own_copy) return;
        auto it = m.out.find(p);
        if (it == m.out.end()) {
            m.errors.push_back(p ? "release of pointer not outstanding (double release or foreign)" : "release of NULL");
            return;
        }
        m.out.erase(it);
        free(const_cast<void *>(p));
    }
    gr_face_ops ops() const { gr_face_ops o = {sizeof(gr_face_ops), get_table, release_table}; return o; }

    // call after gr_face_destroy (or after a failed gr_make_face): everything must have been released
    size_t outstanding() const { return out.size(); }
    void drop_outstanding() { for (auto &kv : out) free(const_cast<void *>(kv.first)); out.clear(); }
    ~MemFace() { drop_outstanding(); }
};
